"""A4 + A5: abstract path evaluation of small functions over the CFG facts.

Every path of a function (and of the tulz callees it inlines) is walked once per *valuation* of its
branch atoms.  Values are abstract: linear integer forms over entry symbols (Lin), enum constants,
booleans, records, aliases (references to storage locations) and opaque unknowns.  There is no solver:
branch atoms are decided by a finite oracle supplied by the rule (a row of a truth table), by constants,
or the path forks.  The rule receives, per path: the branch decisions, the ordered event list
(writes with their abstract values, calls on tracked objects, returns) and the final store.
"""
import itertools, re
from facts import Node, Inconclusive


# ---- values ---------------------------------------------------------------------------------------------------------
class Lin:
    """c0 + sum(ci * symi)"""
    __slots__ = ('t', 'c')

    def __init__(self, terms=None, const=0):
        self.t = {k: v for k, v in (terms or {}).items() if v != 0}; self.c = const

    @staticmethod
    def sym(name): return Lin({name: 1}, 0)

    @staticmethod
    def const(v): return Lin({}, v)

    def __add__(self, o):
        o = as_lin(o)
        if o is None: return None
        t = dict(self.t)
        for k, v in o.t.items(): t[k] = t.get(k, 0) + v
        return Lin(t, self.c + o.c)

    def __neg__(self): return Lin({k: -v for k, v in self.t.items()}, -self.c)

    def __sub__(self, o):
        o = as_lin(o)
        if o is None: return None
        return self + (-o)

    def scale(self, k): return Lin({s: v * k for s, v in self.t.items()}, self.c * k)
    def is_const(self): return not self.t
    def __eq__(self, o): return isinstance(o, Lin) and self.t == o.t and self.c == o.c
    def __hash__(self): return hash((tuple(sorted(self.t.items())), self.c))

    def __repr__(self):
        parts = []
        for k, v in sorted(self.t.items()):
            parts.append(('' if v == 1 else '-' if v == -1 else f'{v}*') + str(k))
        if self.c or not parts: parts.append(str(self.c))
        return '+'.join(parts).replace('+-', '-')


def as_lin(v):
    if isinstance(v, Lin): return v
    if isinstance(v, bool): return Lin.const(int(v))
    if isinstance(v, int): return Lin.const(v)
    return None


class Enum:
    __slots__ = ('name',)
    def __init__(self, name): self.name = name
    def __eq__(self, o): return isinstance(o, Enum) and o.name == self.name
    def __hash__(self): return hash(('enum', self.name))
    def __repr__(self): return self.name.split('::')[-1]


class Unknown:
    """opaque value; tag says where it came from"""
    __slots__ = ('tag',)
    def __init__(self, tag): self.tag = tag
    def __repr__(self): return f'?{self.tag}'
    def __eq__(self, o): return isinstance(o, Unknown) and o.tag == self.tag
    def __hash__(self): return hash(('unk', self.tag))


def norm_tag(tag):
    """(base tag, positive?) with nested ('not', t) wrappers peeled"""
    pos = True
    while isinstance(tag, tuple) and len(tag) == 2 and tag[0] == 'not':
        tag = tag[1]; pos = not pos
    return tag, pos


class Record:
    """struct value: dict field -> value"""
    __slots__ = ('f', 'tag')
    def __init__(self, f, tag=''): self.f = dict(f); self.tag = tag
    def __repr__(self): return f'{{{", ".join(f"{k}={v}" for k, v in self.f.items())}}}'
    def __eq__(self, o): return isinstance(o, Record) and o.f == self.f
    def __hash__(self): return hash(tuple(sorted((k, repr(v)) for k, v in self.f.items())))


class Ref:
    """alias of a storage location (store key)"""
    __slots__ = ('loc',)
    def __init__(self, loc): self.loc = loc
    def __repr__(self): return f'&{self.loc}'
    def __eq__(self, o): return isinstance(o, Ref) and o.loc == self.loc
    def __hash__(self): return hash(('ref', self.loc))


class Closure:
    __slots__ = ('lam', 'fn', 'env')
    def __init__(self, lam, fn, env): self.lam = lam; self.fn = fn; self.env = env
    def __repr__(self): return f'closure@{self.fn.shortloc() if self.fn else "?"}'


class Sym:
    """named opaque symbolic object (e.g. 'T value', an element)"""
    __slots__ = ('name',)
    def __init__(self, name): self.name = name
    def __repr__(self): return f'${self.name}'
    def __eq__(self, o): return isinstance(o, Sym) and o.name == self.name
    def __hash__(self): return hash(('sym', self.name))


def _assert_ids(cfg):
    """ids of every expression node that is (part of) a condition one of whose outcomes goes straight to a noreturn call"""
    ids = getattr(cfg, '_assert_ids', None)
    if ids is None:
        ids = set()
        for B in cfg.blocks.values():
            if B.cond is None: continue
            dead = [s_ for s_ in B.succs if s_ is not None and cfg.blocks[s_].noreturn]
            if len(dead) == 1 and len([s_ for s_ in B.succs if s_ is not None]) == 2:
                for x in B.cond.walk(): ids.add(x.id)
        cfg._assert_ids = ids
    return ids


class Path:
    """result of one walk"""
    def __init__(self):
        self.events = []        # (kind, node, payload)
        self.decisions = []     # (cond node, bool, how)
        self.store = {}
        self.ret = None
        self.end = None         # 'return' | 'throw' | 'exit' | 'loop' | 'noreturn'
        self.unknown_atoms = [] # atoms the oracle could not decide (forked)
        self.asserts = []

    def ev(self, kind): return [e for e in self.events if e[0] == kind]


class State:
    def __init__(self):
        self.store = {}      # location key -> value ; keys: ('f', path tuple) fields, ('l', frame id, decl) locals
        self.events = []
        self.decisions = []
        self.unknown_atoms = []
        self.asserts = []
        self.assumed = {}    # Unknown tag -> bool (facts learnt on this path, e.g. a wait predicate that returned true)

    def clone(self):
        s = State()
        s.assumed = dict(self.assumed)
        s.store = dict(self.store); s.events = list(self.events); s.decisions = list(self.decisions)
        s.unknown_atoms = list(self.unknown_atoms); s.asserts = list(self.asserts)
        return s


class Domain:
    """Rule-specific hooks.  Override what the rule needs."""
    max_paths = 4000
    max_depth = 6
    loop_unroll = 2

    def init_field(self, path, node):
        """initial abstract value of a field location never written on this path"""
        return Unknown('field:' + '.'.join(map(str, path)))

    def init_param(self, fn, p):
        return Unknown('param:' + p['name'])

    def ext_call(self, ex, node, st, frame):
        """call of a function not defined in tulz (or declared opaque): return abstract value; may add events"""
        return Unknown(f'call:{node.calleeq}@{node.line}')

    def decide(self, ex, cond, value, st, frame):
        """branch on a non-boolean abstract value: return True / False / None (fork)"""
        return None

    def opaque(self, fn):
        """tulz function that must not be inlined (treated through ext_call)"""
        return False

    def sync_closures(self, ex, node, st, frame):
        """[(Closure, [arg values])] that the external call `node` invokes synchronously before it returns"""
        return []

    def after_closure(self, ex, node, closure, ret, st):
        """post-process a synchronously invoked closure's result (return False to discard the path as infeasible)"""
        return None

    def summarise_loop(self, ex, loop, st, frame):
        """called on first arrival at a loop header: return a truthy summary after applying the loop's total effect to `st`
        (the walker then continues at the loop exit), or None to have the loop unrolled"""
        return None

    def on_assert(self, ex, node, st, frame):
        """assert(cond) encountered: rule may record it / assume it"""
        return None


class Frame:
    _ids = itertools.count()

    def __init__(self, fn, this_path, depth):
        self.fn = fn; self.this = this_path; self.depth = depth; self.id = next(Frame._ids)
        self.vals = {}       # node id -> value (per frame, per path)
        self.ret = None


class Exec:
    def __init__(self, facts, domain):
        self.facts = facts; self.dom = domain
        self.npaths = 0
        try: domain.ex = self
        except Exception: pass

    # ---- public -------------------------------------------------------------------------------------------------------
    def run(self, fn, args=None, this_path=('this',), state=None):
        """enumerate all paths of fn; returns list of Path"""
        st = state or State()
        fr = Frame(fn, this_path, 0)
        for i, p in enumerate(fn.d['params']):
            v = (args[i] if args and i < len(args) and args[i] is not None else self.dom.init_param(fn, p))
            st.store[('l', fr.id, p['decl'])] = v
        out = []
        for st2, fr2, end in self._walk(fr, st):
            P = Path(); P.events = st2.events; P.decisions = st2.decisions; P.store = st2.store; P.ret = fr2.ret; P.end = end
            P.unknown_atoms = st2.unknown_atoms; P.asserts = st2.asserts; P.assumed = st2.assumed
            if isinstance(P.ret, Ref) and P.ret.loc[0] == 'l':
                P.ret_ref = P.ret; P.ret = st2.store.get(P.ret.loc, P.ret)
            out.append(P)
        return out

    def run_closure(self, closure, args=None, this_path=('this',), bind=None, state=None):
        """enumerate the paths of a lambda body; captured variables get their captured values (or bind[decl] overrides)"""
        st = state or State()
        fr = Frame(closure.fn, this_path, 0)
        for dk, (mode, v) in closure.env.items():
            st.store[('l', fr.id, dk)] = (bind[dk] if bind and dk in bind else (v if mode == 'val' else Ref(v)))
        for i, p in enumerate(closure.fn.d['params']):
            st.store[('l', fr.id, p['decl'])] = (args[i] if args and i < len(args) and args[i] is not None else self.dom.init_param(closure.fn, p))
        out = []
        for st2, fr2, end in self._walk(fr, st):
            P = Path(); P.events = st2.events; P.decisions = st2.decisions; P.store = st2.store; P.end = end
            P.unknown_atoms = st2.unknown_atoms; P.assumed = st2.assumed
            r = fr2.ret
            if isinstance(r, Ref): r = self.read(r.loc, st2)
            P.ret = r
            out.append(P)
        return out

    # ---- CFG walk -------------------------------------------------------------------------------------------------------
    def _walk(self, fr, st):
        """generator of (state, frame, end) for every path through fr.fn starting at its entry"""
        cfg = fr.fn.cfg
        if cfg is None: raise Inconclusive(f'no CFG for {fr.fn.name}', fr.fn.shortloc())
        work = [(cfg.entry, 0, st, fr, {})]
        while work:
            bid, idx, st, fr, visits = work.pop()
            self.npaths += 1
            if self.npaths > self.dom.max_paths * 50: raise Inconclusive('path explosion', fr.fn.shortloc())
            B = cfg.blocks[bid]
            ended = None
            i = idx
            forked = False
            dead_paths = []
            if idx == 0 and B.term in ('ForStmt', 'CXXForRangeStmt', 'WhileStmt') and B.termstmt is not None and len(B.succs) == 2 and B.succs[1] is not None:
                self._st = st
                handled = self.dom.summarise_loop(self, B.termstmt, st, fr)
                if handled:
                    st.events.append(('loop-summary', B.termstmt, handled))
                    work.append((B.succs[1], 0, st, fr, dict(visits)))
                    continue
            while i < len(B.elems):
                e = B.elems[i]
                res = self._elem(e, st, fr)
                if res is None:
                    i += 1; continue
                kind = res[0]
                if kind == 'end':
                    ended = res[1]; break
                if kind == 'fork':
                    # inlined callee produced several continuations: (state, value) list
                    for st2, vals2, end2 in res[2]:
                        dead_paths.append((st2, self._clone_frame(fr, vals2), end2))
                    for st2, vals2 in res[1]:
                        fr2 = self._clone_frame(fr, vals2)
                        work.append((bid, i + 1, st2, fr2, dict(visits)))
                    forked = True; break
                i += 1
            for dp in dead_paths: yield dp
            if forked: continue
            if ended:
                yield st, fr, ended; continue
            if B.noreturn:
                yield st, fr, 'noreturn'; continue
            if bid == cfg.exit:
                yield st, fr, 'exit'; continue
            succs = B.succs
            if B.cond is not None and len(succs) == 2:
                self._st = st
                v = fr.vals.get(B.cond.id)
                if B.cond.k == 'binop' and B.cond.op in ('&&', '||'):
                    v = None      # clang branches on `(a && b)` as the left operand of an enclosing && / ||: it is not an element of this
                                  # block, so a value cached by an earlier loop iteration would be stale; its operands are fresh
                if v is None: v = self._eval(B.cond, st, fr)
                if isinstance(v, Ref): v = self.read(v.loc, st, B.cond)
                v = self._truth(v)
                choice = None; how = 'const'
                if isinstance(v, bool): choice = v
                elif isinstance(v, Lin) and v.is_const(): choice = (v.c != 0)
                else:
                    choice = self.dom.decide(self, B.cond, v, st, fr); how = 'oracle'
                targets = []
                if choice is None:
                    # assert(c) under -UNDEBUG is a branch whose other arm goes straight to a noreturn call: the condition is an assumption
                    # the code states itself, not an atom the rule has to understand
                    if B.cond.id in _assert_ids(cfg): st.asserts.append(B.cond)
                    else: st.unknown_atoms.append(B.cond)
                    targets = [(True, succs[0]), (False, succs[1])]; how = 'fork'
                else:
                    targets = [(choice, succs[0] if choice else succs[1])]
                for k, (val, tgt) in enumerate(targets):
                    if tgt is None: continue
                    st2 = st.clone() if len(targets) > 1 else st
                    fr2 = self._clone_frame(fr, dict(fr.vals)) if len(targets) > 1 else fr
                    st2.decisions.append((B.cond, val, how))
                    if how == 'fork' and getattr(self.dom, 'correlate_unknowns', False) and isinstance(v, Unknown):
                        # remember the outcome: the same atom read again on this path (same tag = same state epoch) agrees
                        t_, pos_ = norm_tag(v.tag)
                        st2.assumed[t_] = val if pos_ else (not val)
                    st2.events.append(('branch', B.cond, (val, how, fr.fn.name)))
                    fr2.vals[B.cond.id] = val
                    vis = dict(visits); vis[tgt] = vis.get(tgt, 0) + 1
                    if vis[tgt] > self.dom.loop_unroll + 1:
                        # unroll bound reached: a forked branch is dropped (the other successor covers the loop exit);
                        # a decided branch (no alternative) ends the path
                        if len(targets) > 1: continue
                        yield st2, fr2, 'loop'; continue
                    work.append((tgt, 0, st2, fr2, vis))
                continue
            nxt = [s for s in succs if s is not None]
            if not nxt:
                yield st, fr, 'exit'; continue
            if len(nxt) > 1 and B.term == 'SwitchStmt':
                # switch (v): the successors are the blocks that start with a case / default label (no default: the last successor is the
                # statement after the switch).  A value the evaluator knows selects its case; otherwise every target is explored.
                sv = None
                if B.cond is not None:
                    sv = fr.vals.get(B.cond.id)
                    if sv is None: sv = self._eval(B.cond, st, fr)
                    if isinstance(sv, Ref): sv = self.read(sv.loc, st, B.cond)
                labelled = [(s_, cfg.blocks[s_]) for s_ in nxt]
                if any(getattr(TB, 'label', None) == 'case-range' for _, TB in labelled) or not hasattr(labelled[0][1], 'label'):
                    raise Inconclusive('switch statement with case ranges in evaluated function', fr.fn.shortloc())
                def case_key(TB):
                    lv = TB.labelv
                    while lv is not None and lv.k in ('cast', 'paren', 'constexpr') and lv.n('sub') is not None: lv = lv.n('sub')
                    if lv is None: return None, None
                    nm = (lv.qname or lv.name or '').split('::')[-1] if lv.k == 'ref' else None
                    cv = lv.d.get('const', lv.d.get('v'))
                    return nm, cv
                chosen = None
                sname = sv.name if isinstance(sv, Enum) else None
                sconst = sv.c if isinstance(sv, Lin) and sv.is_const() else (int(sv) if isinstance(sv, (int, bool)) else None)
                if sname is not None or sconst is not None:
                    for s_, TB in labelled:
                        if TB.label == 'case':
                            nm, cv = case_key(TB)
                            if (sname is not None and nm is not None and str(sname).split('::')[-1] == nm) or (sconst is not None and cv is not None and cv == sconst): chosen = s_; break
                    if chosen is None:
                        dflt = [s_ for s_, TB in labelled if TB.label == 'default']
                        unl = [s_ for s_, TB in labelled if TB.label is None]
                        chosen = (dflt or unl or [None])[0]
                targets = [chosen] if chosen is not None else [s_ for s_, _ in labelled]
                for tgt in targets:
                    st2 = st.clone() if len(targets) > 1 else st
                    fr2 = self._clone_frame(fr, dict(fr.vals)) if len(targets) > 1 else fr
                    TB = cfg.blocks[tgt]
                    if len(targets) > 1:
                        st2.unknown_atoms.append(B.cond if B.cond is not None else B.termstmt)
                        st2.decisions.append((B.cond if B.cond is not None else B.termstmt, (case_key(TB)[0] or TB.label or 'after'), 'fork'))
                    vis = dict(visits); vis[tgt] = vis.get(tgt, 0) + 1
                    if vis[tgt] > self.dom.loop_unroll + 4: continue
                    work.append((tgt, 0, st2, fr2, vis))
                continue
            tgt = nxt[0]
            vis = dict(visits); vis[tgt] = vis.get(tgt, 0) + 1
            if vis[tgt] > self.dom.loop_unroll + 1:
                TB = cfg.blocks[tgt]
                # a loop header with its own exit test decides there (the forked body branch is dropped); a loop
                # without exit (`while (true)`) ends the path here
                if not (TB.cond is not None and len(TB.succs) == 2) or vis[tgt] > self.dom.loop_unroll + 4:
                    yield st, fr, 'loop'; continue
            work.append((tgt, 0, st, fr, vis))

    def _clone_frame(self, fr, vals):
        f2 = Frame(fr.fn, fr.this, fr.depth); f2.id = fr.id; f2.vals = dict(vals); f2.ret = fr.ret
        return f2

    # ---- storage ----------------------------------------------------------------------------------------------------------
    def loc_of(self, n, st, fr):
        """storage location designated by lvalue expression n, or None"""
        k = n.k
        if k == 'ref':
            if n.dk in ('local', 'param'):
                key = ('l', fr.id, n.decl)
                v = st.store.get(key)
                if isinstance(v, Ref) and (n.declref or n.captured or v.loc[0] == 'f'): return v.loc
                return key
            if n.dk == 'binding':
                b = Node(n.tu, n.binding) if n.binding and n.binding in n.tu.ex else None
                return self.loc_of(b, st, fr) if b is not None else None
            if n.dk == 'global': return ('g', n.qname or n.name)
            # captured variable inside a lambda frame
            return ('l', fr.id, n.decl)
        if k == 'member' and n.field:
            b = n.n('base')
            if b is None: return None
            if b.k == 'this': return ('f', fr.this + (n.name,))
            bl = self.loc_of(b, st, fr)
            if bl is None:
                bv = fr.vals.get(b.id)
                if isinstance(bv, Ref): bl = bv.loc
            if bl is None: return None
            if bl[0] == 'f': return ('f', bl[1] + (n.name,))
            return (bl[0],) + tuple(bl[1:]) + (n.name,)
        if k == 'cast': return self.loc_of(n.n('sub'), st, fr)
        if k == 'unop' and n.op == '*':
            s = n.n('sub')
            if s is not None and s.k == 'this': return ('f', fr.this)
            v = fr.vals.get(s.id) if s is not None else None
            if isinstance(v, Ref):
                if s.k in ('ref', 'member') and (s.type or s.d.get('decltype') or '').rstrip().endswith(('*', '*const', '* const')):
                    # `*p` with p a pointer variable: the location is what p holds, not p itself
                    c = st.store.get(v.loc)
                    if isinstance(c, Ref): return c.loc
                    if c is not None: return None
                return v.loc
            return None
        if k == 'call':
            v = fr.vals.get(n.id)
            if isinstance(v, Ref): return v.loc
        return None

    def read(self, loc, st, node=None):
        self._st = st
        if loc in st.store: return st.store[loc]
        # record field of a record stored one level up
        if len(loc) >= 3 and loc[0] in ('l',) and len(loc) > 3:
            base = loc[:3]; v = st.store.get(base)
            for fld in loc[3:]:
                if isinstance(v, Record) and fld in v.f: v = v.f[fld]
                else: v = None; break
            if v is not None: return v
        if loc[0] == 'f' and len(loc[1]) == 4 and loc[1][0] == 'obj' and loc[1][1] == 'l':
            # the whole local object a member function runs on (`*this` of a call on a local / temporary)
            try: v = st.store.get(('l', int(loc[1][2]), loc[1][3]))
            except ValueError: v = None
            if isinstance(v, Ref): v = st.store.get(v.loc)
            if isinstance(v, Record): return v
        if loc[0] == 'f' and len(loc[1]) >= 5 and loc[1][0] == 'obj' and loc[1][1] == 'l':
            # member of a local object the callee runs on (this_path = ('obj', 'l', frame, decl)): the local holds a Record
            try: base = ('l', int(loc[1][2]), loc[1][3])
            except ValueError: base = None
            v = st.store.get(base) if base is not None else None
            if isinstance(v, Ref): v = st.store.get(v.loc)
            for fld in loc[1][4:]:
                if isinstance(v, Record) and fld in v.f: v = v.f[fld]
                else: v = None; break
            if v is not None: return v
        if loc[0] == 'f':
            # field of a record stored in a field
            p = loc[1]
            for cut in range(len(p) - 1, 0, -1):
                v = st.store.get(('f', p[:cut]))
                if isinstance(v, Record):
                    ok = True
                    for fld in p[cut:]:
                        if isinstance(v, Record) and fld in v.f: v = v.f[fld]
                        else: ok = False; break
                    if ok: return v
            v = self.dom.init_field(p, node)
            vol = getattr(self.dom, 'volatile', None)
            if vol is None or not vol(p): st.store[loc] = v
            return v
        return Unknown('uninit:' + str(loc[-1]))

    def write(self, loc, v, st, node):
        if loc is None: return
        if loc[0] == 'f' and len(loc[1]) == 5 and loc[1][0] == 'obj' and loc[1][1] == 'l':
            try: base = ('l', int(loc[1][2]), loc[1][3])
            except ValueError: base = None
            rec = st.store.get(base) if base is not None else None
            if isinstance(rec, Record):
                f = dict(rec.f); f[loc[1][4]] = v; st.store[base] = Record(f, rec.tag)
                st.events.append(('write', node, (loc, v))); return
        if len(loc) > 3 and loc[0] == 'l':
            base = loc[:3]; rec = st.store.get(base)
            if isinstance(rec, Record) and len(loc) == 4:
                f = dict(rec.f); f[loc[3]] = v; st.store[base] = Record(f, rec.tag)
                st.events.append(('write', node, (loc, v))); return
        st.store[loc] = v
        st.events.append(('write', node, (loc, v)))

    # ---- elements -------------------------------------------------------------------------------------------------------------
    def _elem(self, e, st, fr):
        self._st = st
        if e.kind == 'autodtor':
            st.events.append(('autodtor', None, (e.info['autodtor'], e.info['decl'], e.info.get('type'))))
            return self._scope_exit_dtor(e, st, fr)
        if e.kind in ('tmpdtor', 'memberdtor', 'basedtor', 'deletedtor', 'other'): return None
        n = e.node
        if n is None: return None
        if e.kind == 'init':
            v = self._rvalue(n, st, fr)
            if e.info.get('initfield'):
                self.write(('f', fr.this + (e.info['initfield'],)), v, st, n)
            return None
        k = n.k
        if k == 'return':
            s = n.n('sub')
            fr.ret = self._value(s, st, fr) if s is not None else None
            # `return p;` of a named smart-pointer local moves from it (implicit move / copy elision): ownership leaves the local
            r0 = s
            while r0 is not None and (r0.k in ('cast', 'paren', 'materialize', 'bindtemp') or (r0.k == 'construct' and len([a for a in r0.ns('args') if a is not None]) == 1)):
                r0 = r0.n('sub') if r0.k != 'construct' else [a for a in r0.ns('args') if a is not None][0]
            if r0 is not None and r0.k == 'ref' and r0.dk == 'local' and (r0.type or '').replace('const ', '').startswith(('std::unique_ptr', 'unique_ptr')):
                st.events.append(('moved-from', n, r0.name))
                held = self.read(self.loc_of(r0, st, fr), st, r0) if self.loc_of(r0, st, fr) is not None else None
                if held is not None and not isinstance(fr.ret, (Sym, Lin)): fr.ret = held
            st.events.append(('return', n, fr.ret))
            return None   # control continues to the exit block (destructors follow)
        if k == 'throw':
            st.events.append(('throw', n, None)); return ('end', 'throw')
        if k == 'call' and n.callee_in_root and not self.dom.opaque(n):
            return self._inline_call(n, st, fr)
        if k == 'construct' and (n.callee_in_root or self._local_raii(n.d.get('classfull') or n.d.get('class') or '') is not None) and not (n.copy or n.move) and not self.dom.opaque(n):
            return self._inline_call(n, st, fr)
        if k == 'call':
            clos = self.dom.sync_closures(self, n, st, fr)
            if clos:
                return self._call_with_closures(n, clos, st, fr)
        v = self._eval(n, st, fr)
        return None

    def _local_raii(self, ty):
        """the user-written destructor of class `ty` if the class is a helper local to an implementation file (a scope guard next to the
        function under analysis); library classes declared in headers have rules of their own and are not followed here"""
        cache = self.__dict__.setdefault('_dtor_cache', {})
        if ty not in cache:
            norm = lambda x: (x or '').replace('(anonymous namespace)::', '')
            cache[ty] = next((f for f in self.facts.fns if f.d.get('dtor') and norm(ty) in (norm(f.d.get('classfull')), norm(f.d.get('class'))) and f.body is not None and not f.d.get('defaulted')
                              and f.loc.split(':')[0].endswith(('.cpp', '.cc', '.cxx')) and not f.loc.startswith('witness/') and any(True for _ in f.body.children())), None) if ty else None
        return cache[ty]

    def _scope_exit_dtor(self, e, st, fr):
        """a local of a tulz class with a user-written destructor goes out of scope (scope guards, RAII helpers): run the destructor
        on the object its constructor built.  Only when the local was initialised by an inlined constructor call of that class;
        anything else is left to the domain (the 'autodtor' event)."""
        dt = self._local_raii((e.info.get('type') or '').replace('const ', '').strip())
        if dt is None or fr.depth + 1 > self.dom.max_depth: return None
        cons = None
        for x in fr.fn.nodes():
            if x.k == 'decl':
                for v in x.vars:
                    if v['decl'] == e.info['decl'] and v.get('init') and v['init'] in x.tu.ex:
                        i = Node(x.tu, v['init'])
                        while i is not None and i.k in ('cast', 'paren', 'materialize', 'bindtemp'): i = i.n('sub')
                        if i is not None and i.k == 'construct' and not (i.copy or i.move): cons = i
        if cons is None or self.dom.opaque(cons): return None
        sub = Frame(dt, ('tmp', cons.id), fr.depth + 1)
        st.events.append(('enter', cons, dt.name))
        live = []; dead = []
        for st2, sub2, end in self._walk(sub, st):
            st2.events.append(('leave', cons, dt.name))
            (dead if end in ('throw', 'noreturn', 'loop') else live).append((st2, dict(fr.vals)) if end not in ('throw', 'noreturn', 'loop') else (st2, dict(fr.vals), end))
        return ('fork', live, dead)

    def _call_with_closures(self, n, clos, st, fr):
        """a std call that synchronously invokes closure arguments (cv.wait predicate, std algorithms): run each closure body
        once in the caller's state (forking on its paths), let the domain post-process its result, then the call itself"""
        states = [(st, dict(fr.vals))]
        dead = []
        for clo, args in clos:
            nxt = []
            for st1, vals1 in states:
                sub = Frame(clo.fn, fr.this, fr.depth + 1)
                for dk, (mode, v) in clo.env.items():
                    st1.store[('l', sub.id, dk)] = v if mode == 'val' else Ref(v)
                for i, p in enumerate(clo.fn.d['params']):
                    st1.store[('l', sub.id, p['decl'])] = args[i] if i < len(args) and args[i] is not None else self.dom.init_param(clo.fn, p)
                st1.events.append(('enter', n, clo.fn.name))
                for st2, sub2, end in self._walk(sub, st1):
                    st2.events.append(('leave', n, clo.fn.name))
                    if end in ('throw', 'noreturn', 'loop'): dead.append((st2, dict(vals1), end)); continue
                    r = sub2.ret
                    if isinstance(r, Ref): r = self.read(r.loc, st2)
                    if self.dom.after_closure(self, n, clo, r, st2) is False: continue
                    nxt.append((st2, dict(vals1)))
            states = nxt
        conts = []
        for st1, vals1 in states:
            fr1 = self._clone_frame(fr, vals1)
            self._st = st1
            v = self._eval(n, st1, fr1)
            conts.append((st1, fr1.vals))
        return ('fork', conts, dead)

    def _value(self, n, st, fr):
        if n is None: return None
        if n.id in fr.vals: return fr.vals[n.id]
        return self._eval(n, st, fr)

    def _rvalue(self, n, st, fr):
        """value of n as an rvalue (locations are read)"""
        v = self._value(n, st, fr)
        if n is not None and (n.k == 'this' or (n.k == 'unop' and n.op == '&')): return v       # an address stays an address
        if isinstance(v, Ref):
            return self.read(v.loc, st, n)
        return v

    def _eval(self, n, st, fr):
        v = self._eval1(n, st, fr)
        fr.vals[n.id] = v
        return v

    def _eval1(self, n, st, fr):
        k = n.k; d = n.d
        if k in ('int', 'char'): return Lin.const(d['v'])
        if k == 'bool': return bool(d['v'])
        if k == 'null': return Lin.const(0)
        if k == 'str': return Sym('str:' + d['v'][:20])
        if k == 'float': return Unknown('float')
        if k == 'sizeof' and hasattr(self.dom, 'sizeof_value'):
            return self.dom.sizeof_value(n)
        if k == 'sizeof':
            return Lin.sym('sizeof(' + (d.get('argtype') or 'expr') + ')') if 'v' not in d or d.get('argtype', '').startswith(('T', 'tulz', 'std', 'w::')) or True and d.get('argtype') else (Lin.const(d['v']) if 'v' in d else Unknown('sizeof'))
        if k == 'this': return Ref(('f', fr.this))
        if k == 'ref':
            if d.get('dk') == 'enum': return Enum(d.get('qname') or d['name'])
            if d.get('dk') == 'func': return Sym('fn:' + (d.get('qname') or d['name']))
            if 'const' in d and d.get('dk') not in ('local', 'param') and d.get('dk') != 'binding': return Lin.const(d['const'])
            loc = self.loc_of(n, st, fr)
            if loc is None: return Unknown('ref:' + d['name'])
            return Ref(loc)
        if k == 'member':
            if not d.get('field'): return Unknown('method')
            loc = self.loc_of(n, st, fr)
            if loc is not None: return Ref(loc)
            b = self._rvalue(n.n('base'), st, fr)
            if isinstance(b, Record) and d['name'] in b.f: return b.f[d['name']]
            return Unknown(f'member:{d["name"]}')
        if k == 'cast':
            v = self._value(n.n('sub'), st, fr)
            return v
        if k == 'unop':
            op = d['op']; s = n.n('sub')
            if op in ('++', '--'):
                loc = self.loc_of(s, st, fr)
                old = self.read(loc, st, s) if loc else Unknown('incdec')
                lo = as_lin(old)
                new = (lo + Lin.const(1 if op == '++' else -1)) if lo is not None else Unknown('incdec')
                if lo is None and hasattr(self.dom, 'step'):
                    stepped = self.dom.step(old, 1 if op == '++' else -1)       # domain values that can be stepped (pointers into a block)
                    if stepped is not None: new = stepped
                self.write(loc, new, st, n)
                return old if d.get('postfix') else (Ref(loc) if loc else new)
            if op == '!':
                v = self._truth(self._rvalue(s, st, fr))
                return (not v) if isinstance(v, bool) else Unknown(('not', v.tag if isinstance(v, Unknown) else repr(v)))
            if op == '-':
                v = as_lin(self._rvalue(s, st, fr)); return -v if v is not None else Unknown('neg')
            if op == '&':
                loc = self.loc_of(s, st, fr)
                if loc: return Ref(loc)
                v = self._value(s, st, fr)
                return v if (v is not None and not isinstance(v, (Unknown, Lin, bool))) else Sym(f'addr@{n.id}')       # the address of something: never null
            if op == '*':
                v = self._value(s, st, fr)
                if isinstance(v, Ref) and s.k in ('ref', 'member') and (s.type or s.d.get('decltype') or '').rstrip().endswith(('*', '*const', '* const')):
                    c = st.store.get(v.loc)
                    if isinstance(c, Ref): return c
                    if c is not None and not isinstance(c, (Unknown, Sym)): v = c       # the address held by the pointer variable
                if isinstance(v, Ref): return v
                if hasattr(self.dom, 'deref'):
                    r = self.dom.deref(self, n, v, st, fr)
                    if r is not None: return r
                return Unknown('deref')
            return Unknown('unop' + op)
        if k == 'binop':
            op = d['op']
            if op == '=':
                rv = self._rvalue(n.n('rhs'), st, fr)
                loc = self.loc_of(n.n('lhs'), st, fr)
                if loc is None:
                    lv = self._value(n.n('lhs'), st, fr)
                    if isinstance(lv, Ref): loc = lv.loc
                lhs_ = n.n('lhs')
                if loc is not None and lhs_ is not None and lhs_.k == 'ref' and lhs_.d.get('declref') and hasattr(self.dom, 'assign_to'):
                    # assignment through a reference variable bound to a domain-level lvalue (an element slot)
                    cur = st.store.get(loc)
                    if cur is not None and not isinstance(cur, Ref):
                        r = self.dom.assign_to(self, n, cur, rv, st, fr)
                        if r is not None: return r
                if loc is None:
                    if hasattr(self.dom, 'assign_to'):
                        r = self.dom.assign_to(self, n, self._value(n.n('lhs'), st, fr), rv, st, fr)
                        if r is not None: return r
                    st.events.append(('write?', n, rv)); return Unknown('assign')
                self.write(loc, rv, st, n)
                return Ref(loc)
            if op in ('+=', '-=', '*=', '/='):
                loc = self.loc_of(n.n('lhs'), st, fr)
                old = as_lin(self.read(loc, st, n)) if loc else None
                rv = as_lin(self._rvalue(n.n('rhs'), st, fr))
                new = Unknown('compound')
                if old is not None and rv is not None:
                    if op == '+=': new = old + rv
                    elif op == '-=': new = old - rv
                    elif op == '*=' and rv.is_const(): new = old.scale(rv.c)
                self.write(loc, new, st, n)
                return Ref(loc) if loc else new
            if op in ('&&', '||'):
                l = self._truth(self._rvalue(n.n('lhs'), st, fr))
                rn = n.n('rhs')
                if op == '&&':
                    if l is False: return False
                    r = self._truth(fr.vals[rn.id] if rn.id in fr.vals else self._rvalue(rn, st, fr))
                    if l is True: return r
                    return False if r is False else Unknown(('and', n.id))
                else:
                    if l is True: return True
                    r = self._truth(fr.vals[rn.id] if rn.id in fr.vals else self._rvalue(rn, st, fr))
                    if l is False: return r
                    return True if r is True else Unknown(('or', n.id))
            if op == ',':
                return self._value(n.n('rhs'), st, fr)
            l = self._rvalue(n.n('lhs'), st, fr); r = self._rvalue(n.n('rhs'), st, fr)
            if op in ('+', '-', '*', '/', '%'):
                ll, rl = as_lin(l), as_lin(r)
                if ll is not None and rl is not None:
                    if op == '+': return ll + rl
                    if op == '-': return ll - rl
                    if op == '*':
                        if rl.is_const(): return ll.scale(rl.c)
                        if ll.is_const(): return rl.scale(ll.c)
                        return self.dom.arith(self, n, op, ll, rl, st, fr) if hasattr(self.dom, 'arith') else Unknown('mul')
                    return self.dom.arith(self, n, op, ll, rl, st, fr) if hasattr(self.dom, 'arith') else Unknown('arith' + op)
                if hasattr(self.dom, 'arith'): return self.dom.arith(self, n, op, l, r, st, fr)
                return Unknown('arith')
            if op in ('==', '!=', '<', '>', '<=', '>='):
                return self.compare(op, l, r, n, st, fr)
            return Unknown('binop' + op)
        if k == 'cond':
            c = self._truth(self._rvalue(n.n('c'), st, fr))
            if c is True: return self._value(n.n('t'), st, fr)
            if c is False: return self._value(n.n('f'), st, fr)
            tv = fr.vals.get(n.n('t').id); fv = fr.vals.get(n.n('f').id)
            return tv if tv is not None else fv if fv is not None else Unknown('cond')
        if k == 'decl':
            for v in d['vars']:
                key = ('l', fr.id, v['decl'])
                if v.get('init') and v['init'] in n.tu.ex:
                    init = Node(n.tu, v['init'])
                    iv = self._value(init, st, fr)
                    if v.get('isref'):
                        if isinstance(iv, Ref): st.store[key] = iv
                        else: st.store[key] = iv
                    else:
                        if isinstance(iv, Ref) and not (init.k == 'this' or (init.k == 'unop' and init.op == '&')): iv = self.read(iv.loc, st, init)
                        st.store[key] = iv
                    st.events.append(('decl', n, (v['name'], st.store[key])))
                    for bi, b in enumerate(v.get('bindings') or []):
                        pass
                else:
                    st.store[key] = Unknown('uninit:' + v['name'])
            return None
        if k == 'lambda':
            lf = self.facts.lambda_fn(n)
            env = {}
            for c in d.get('captures') or []:
                if 'decl' not in c: continue
                key = ('l', fr.id, c['decl'])
                if c.get('initcapture'):
                    init = Node(n.tu, c['init']) if c.get('init') and c['init'] in n.tu.ex else None
                    env[c['decl']] = ('val', self._rvalue(init, st, fr) if init is not None else Unknown('initcap'))
                elif c['mode'] == 'copy':
                    cur = st.store.get(key)
                    if isinstance(cur, Ref) and c.get('isref'): cur = self.read(cur.loc, st, n)
                    env[c['decl']] = ('val', cur if cur is not None else Unknown('cap:' + c['var']))
                else:
                    cur = st.store.get(key)
                    env[c['decl']] = ('ref', cur.loc if isinstance(cur, Ref) else key)
            return Closure(n, lf, env)
        if k == 'call':
            return self._call(n, st, fr)
        if k == 'construct':
            args = [self._rvalue(a, st, fr) for a in n.ns('args') if a is not None]
            r = self.dom.ext_call(self, n, st, fr)
            if r is not None and not (isinstance(r, Unknown) and str(r.tag).startswith('call:')): return r
            if (d.get('copy') or d.get('move')) and args: return args[0]
            return r if r is not None else Unknown('construct:' + d['class'])
        if k == 'initlist':
            args = n.ns('args'); names = d.get('fields') or []
            if not names and len(args) == 1 and args[0] is not None: return self._rvalue(args[0], st, fr)
            if not names and not args: return Lin.const(0)
            if names and len(names) >= len(args):
                return Record({names[i]: self._rvalue(a, st, fr) for i, a in enumerate(args) if a is not None})
            return Unknown('initlist')
        if k == 'designated': return self._rvalue(n.n('init'), st, fr)
        if k == 'new' or k == 'delete' or k == 'pseudodtor':
            return self.dom.ext_call(self, n, st, fr)
        if k == 'subscript':
            return self.dom.ext_call(self, n, st, fr)
        if k == 'valueinit': return Lin.const(0)
        if k in ('block', 'if', 'for', 'while', 'do', 'rangefor', 'break', 'continue', 'null_stmt', 'switch', 'case', 'default', 'try'): return None
        return Unknown(k)

    def _truth(self, v):
        if isinstance(v, bool): return v
        if isinstance(v, Lin) and v.is_const(): return v.c != 0
        if isinstance(v, Unknown):
            st = getattr(self, '_st', None)
            if st is not None and v.tag in st.assumed: return st.assumed[v.tag]
            t_, pos_ = norm_tag(v.tag)
            if st is not None and t_ in st.assumed: return st.assumed[t_] if pos_ else (not st.assumed[t_])
        return v

    def assume(self, v, truth, st):
        """record that abstract value v is known to be `truth` on this path; returns False if that contradicts the path"""
        if isinstance(v, Ref): v = self.read(v.loc, st)
        if isinstance(v, bool): return v == truth
        if isinstance(v, Lin) and v.is_const(): return (v.c != 0) == truth
        if isinstance(v, Unknown):
            t_, pos_ = norm_tag(v.tag)
            want = truth if pos_ else (not truth)
            if t_ in st.assumed: return st.assumed[t_] == want
            st.assumed[t_] = want
        return True

    def compare(self, op, l, r, n, st, fr):
        import operator
        OPF = {'<': operator.lt, '<=': operator.le, '>': operator.gt, '>=': operator.ge, '==': operator.eq, '!=': operator.ne}
        if isinstance(l, Enum) and isinstance(r, Enum) and op in ('==', '!='):
            return (l == r) if op == '==' else (l != r)
        if isinstance(l, bool) and isinstance(r, bool) and op in ('==', '!='): return OPF[op](l, r)
        ll, rl = as_lin(l), as_lin(r)
        if ll is not None and rl is not None:
            dlt = ll - rl
            if dlt.is_const(): return OPF[op](dlt.c, 0)
        if op in ('==', '!='):
            for a_, b_ in ((l, r), (r, l)):
                if (isinstance(a_, Ref) or (isinstance(a_, Sym) and a_.name.startswith('addr@'))) and isinstance(b_, Lin) and b_.is_const() and b_.c == 0:
                    return op == '!='         # an address is not the null pointer
        if hasattr(self.dom, 'compare'):
            v = self.dom.compare(self, op, l, r, n, st, fr)
            if v is not None: return v
        return Unknown(('cmp', op, repr(l), repr(r)))

    # ---- calls -----------------------------------------------------------------------------------------------------------------
    def _call(self, n, st, fr):
        d = n.d; q = d.get('calleeq') or ''
        if q in ('std::move', 'std::forward', 'std::as_const') and n.ns('args'):
            a0 = n.ns('args')[0]
            if q == 'std::move' and a0 is not None and a0.k == 'ref' and (a0.type or '').replace('const ', '').startswith(('std::unique_ptr', 'unique_ptr')):
                st.events.append(('moved-from', n, a0.name))      # ownership leaves the named smart pointer
            return self._value(a0, st, fr)
        if q == '__assert_fail' or q.endswith('::__assert_fail'):
            st.events.append(('assert_fail', n, None)); return None
        if q == 'std::exchange' and len(n.ns('args')) == 2 and n.ns('args')[0] is not None:
            a0, a1 = n.ns('args')
            loc = self.loc_of(a0, st, fr)
            if loc is None:
                v0 = self._value(a0, st, fr)
                loc = v0.loc if isinstance(v0, Ref) else None
            if loc is not None:
                old = self.read(loc, st, a0)
                new = self._rvalue(a1, st, fr)
                self.write(loc, new, st, n)
                return old
        mc = d.get('mclass') or ''
        if mc.startswith(('std::atomic', 'std::__atomic_base')):
            # std::atomic<T> member operations are reads / writes of the location
            args = n.ns('args'); base = q.split('::')[-1]
            obj = n.n('object') if n.n('object') is not None else (args[0] if args else None)
            rest = args[1:] if (n.n('object') is None and args) else args
            loc = self.loc_of(obj, st, fr) if obj is not None else None
            if loc is not None:
                old = self.read(loc, st, obj); lo = as_lin(old)
                if base in ('operator++', 'operator--', 'fetch_add', 'fetch_sub'):
                    if base.startswith('operator'):
                        delta = Lin.const(1 if base.endswith('++') else -1); post = len(rest) >= 1
                    else:
                        dv = as_lin(self._rvalue(rest[0], st, fr)) if rest and rest[0] is not None else None
                        delta = (dv if base == 'fetch_add' else -dv) if dv is not None else None; post = True
                    new = (lo + delta) if (lo is not None and delta is not None) else Unknown('atomic-rmw')
                    self.write(loc, new, st, n)
                    return old if post else new
                if base in ('operator=', 'store') and rest and rest[0] is not None:
                    v = self._rvalue(rest[0], st, fr); self.write(loc, v, st, n); return v
                if base in ('load',) or base.startswith('operator ') or re.search(r'(^|::)operator\s+[A-Za-z_]', q): return old       # load / conversion to T (`operator ns::T`)
                if base == 'exchange' and rest and rest[0] is not None:
                    v = self._rvalue(rest[0], st, fr); self.write(loc, v, st, n); return old
        # closure invocation
        if d.get('ck') == 'op' and d.get('op') == '()' and n.ns('args'):
            f0 = self._rvalue(n.ns('args')[0], st, fr)
            if isinstance(f0, Closure) and f0.fn is not None:
                return Unknown('closure-call')      # handled through _inline_call (callee_in_root)
        return self.dom.ext_call(self, n, st, fr)

    def _inline_call(self, n, st, fr):
        """inline a tulz callee; returns None (single continuation merged in place) or ('fork', [(state, vals)])"""
        if fr.depth + 1 > self.dom.max_depth:
            raise Inconclusive(f'inlining depth exceeded at {n.text()[:60]}', n.shortloc())
        targets = self.facts.resolve(n)
        closure = None
        if n.k == 'call' and n.ck == 'op' and n.op == '()' and n.ns('args'):
            f0 = self._rvalue(n.ns('args')[0], st, fr)
            if isinstance(f0, Closure): closure = f0; targets = [f0.fn] if f0.fn else []
        if not targets:
            v = self.dom.ext_call(self, n, st, fr); fr.vals[n.id] = v; return None
        if len(targets) > 1:
            raise Inconclusive(f'ambiguous callee for {n.text()[:60]}', n.shortloc())
        callee = targets[0]
        args = n.ns('args')
        if n.k == 'call' and n.ck == 'op' and 'mclass' in n.d: obj_node = args[0] if args else None; args = args[1:]
        elif n.k == 'call': obj_node = n.n('object')
        else: obj_node = None
        if callee.d.get('lambda'):
            this_path = fr.this
        elif obj_node is not None:
            ol = self.loc_of(obj_node, st, fr)
            if ol is None:
                ov = self._value(obj_node, st, fr)
                ol = ov.loc if isinstance(ov, Ref) else None
                if ol is None and isinstance(ov, Record):
                    # a member function called on a temporary object value: give the temporary a location of its own
                    ol = ('l', fr.id, f'@tmp{obj_node.id}'); st.store[ol] = ov
            elif obj_node.k == 'member' and (obj_node.ftype or '').rstrip().endswith('&'):
                # a reference member designates the object it was bound to
                rv_ = self.read(ol, st, obj_node)
                if isinstance(rv_, Ref): ol = rv_.loc
            this_path = ol[1] if (ol is not None and ol[0] == 'f') else (('obj',) + tuple(map(str, ol)) if ol is not None else ('obj?', n.id))
        elif n.k == 'construct':
            this_path = ('tmp', n.id)
        else:
            this_path = fr.this if callee.d.get('class') == fr.fn.d.get('class') and not callee.d.get('static') else ('static',)
        sub = Frame(callee, this_path, fr.depth + 1)
        owned_params = []       # by-value std::unique_ptr parameters: destroyed (with what they hold) when the call is over
        for p, a in zip(callee.d['params'], args):
            if a is None: continue
            av = self._value(a, st, fr)
            if p.get('isref'):
                if not isinstance(av, Ref):
                    loc = self.loc_of(a, st, fr)
                    if loc is not None: av = Ref(loc)
            else:
                if isinstance(av, Ref): av = self.read(av.loc, st, a)
            st.store[('l', sub.id, p['decl'])] = av
            if not p.get('isref') and (p.get('ctype') or '').startswith('std::unique_ptr'):
                owned_params.append((p['name'], p['decl'], p['ctype'], av))
        if closure is not None:
            for dk, (mode, v) in closure.env.items():
                st.store[('l', sub.id, dk)] = v if mode == 'val' else Ref(v)
        st.events.append(('enter', n, callee.name))
        for pn, pd, pt, av in owned_params: st.events.append(('decl', n, (pn, av)))
        conts = []
        for st2, sub2, end in self._walk(sub, st):
            if end == 'throw':
                st2.events.append(('callee-throw', n, callee.name))
            for pn, pd, pt, av in owned_params: st2.events.append(('autodtor', None, (pn, pd, pt)))
            st2.events.append(('leave', n, callee.name))
            vals2 = dict(fr.vals); vals2[n.id] = sub2.ret
            conts.append((st2, vals2, end))
        # a callee path cut by the unroll bound ('loop') has no return value: the caller's path ends there too
        live = [(s, v) for s, v, e in conts if e not in ('throw', 'noreturn', 'loop')]
        dead = [(s, v, e) for s, v, e in conts if e in ('throw', 'noreturn', 'loop')]
        return ('fork', live, dead)
