"""Typed-AST + CFG facts as Python objects.  Pure data access; no verdicts here."""
import json, os, re, collections

_EID = re.compile(r'^e\d+$')
_SKIP_KEYS = {'loc', 'type', 'cat', 'k', 'decl', 'binding', 'termstmt', 'fnloc', 'fn', 'callee', 'calleeq', 'callee_def',
              'name', 'class', 'classfull', 'to', 'op', 'method', 'ctor', 'ctor_def', 'mclass', 'mclassfull', 'qname',
              'decltype', 'ftype', 'castkind', 'ck', 'dk', 'cls', 'alloctype', 'argtype', 'lhs_type', 'rhs_type'}


class Inconclusive(Exception):
    """Raised by an analysis that meets a construct it does not understand on a path that matters."""
    def __init__(self, msg, loc=None):
        super().__init__(msg); self.loc = loc


class Node:
    __slots__ = ('tu', 'id', 'd')

    def __init__(self, tu, id_):
        self.tu = tu; self.id = id_; self.d = tu.ex[id_]

    def __getattr__(self, k):
        if k.startswith('__'): raise AttributeError(k)
        return self.d.get(k)

    def __eq__(self, o): return isinstance(o, Node) and o.tu is self.tu and o.id == self.id
    def __hash__(self): return hash((id(self.tu), self.id))
    def __repr__(self): return f'<{self.k} {self.text()[:60]} @{self.shortloc()}>'

    @property
    def k(self): return self.d['k']

    def n(self, key):
        v = self.d.get(key)
        if isinstance(v, str) and v in self.tu.ex: return Node(self.tu, v)
        return None

    def ns(self, key):
        return [Node(self.tu, v) if isinstance(v, str) and v in self.tu.ex else None for v in (self.d.get(key) or [])]

    def children(self):
        for key, v in self.d.items():
            if key in _SKIP_KEYS: continue
            if isinstance(v, str):
                if _EID.match(v) and v in self.tu.ex: yield Node(self.tu, v)
            elif isinstance(v, list):
                for x in v:
                    if isinstance(x, str):
                        if _EID.match(x) and x in self.tu.ex: yield Node(self.tu, x)
                    elif isinstance(x, dict):
                        for kk, y in x.items():
                            if kk in ('binding',): continue
                            if isinstance(y, str) and _EID.match(y) and y in self.tu.ex: yield Node(self.tu, y)
                            elif isinstance(y, list):
                                for z in y:
                                    if isinstance(z, dict):
                                        for kkk, w in z.items():
                                            if kkk == 'binding': continue
                                            if isinstance(w, str) and _EID.match(w) and w in self.tu.ex: yield Node(self.tu, w)
            elif isinstance(v, dict):   # rangefor var
                for kk, y in v.items():
                    if isinstance(y, str) and _EID.match(y) and y in self.tu.ex: yield Node(self.tu, y)

    def walk(self, into_lambdas=False):
        """pre-order over the syntactic tree (lambda bodies are separate functions)"""
        seen = set(); st = [self]
        while st:
            n = st.pop()
            if n.id in seen: continue
            seen.add(n.id)
            yield n
            if n.k == 'rangefor':
                # syntactic children only (range, var, body); desugared pieces are reachable through the CFG
                kids = [n.n('range'), n.n('body')]
                kids = [c for c in kids if c]
            else:
                kids = list(n.children())
            st.extend(reversed(kids))

    def shortloc(self):
        l = self.d.get('loc') or ''
        parts = l.split(':')
        return f"{parts[0]}:{parts[1]}" if len(parts) >= 2 else l

    @property
    def line(self):
        l = (self.d.get('loc') or '').split(':')
        return int(l[1]) if len(l) >= 2 and l[1].isdigit() else 0

    @property
    def file(self):
        return (self.d.get('loc') or '').split(':')[0]

    # ---- small semantic helpers -------------------------------------------------
    def is_field(self, name=None, cls=None):
        return self.k == 'member' and self.d.get('field') and (name is None or self.d['name'] == name) and (cls is None or self.d.get('class') == cls)

    def is_call(self, *suffixes):
        """call whose qualified callee name (without template args) ends with one of the suffixes"""
        if self.k != 'call': return False
        q = self.d.get('calleeq') or ''
        return not suffixes or any(q == s or q.endswith('::' + s) for s in suffixes)

    def callee_base(self):
        q = self.d.get('calleeq') or ''
        return q.split('::')[-1]

    def text(self, depth=0):
        if depth > 12: return '…'
        d = self.d; k = d['k']; T = lambda key: (self.n(key).text(depth + 1) if self.n(key) else '∅')
        if k == 'ref': return d['name']
        if k == 'this': return 'this'
        if k == 'member':
            b = self.n('base')
            if b is not None and b.k == 'this': return d['name']
            return f"{T('base')}{'->' if d.get('arrow') else '.'}{d['name']}"
        if k in ('int', 'char'): return str(d['v'])
        if k == 'float': return str(d['v'])
        if k == 'bool': return 'true' if d['v'] else 'false'
        if k == 'str': return json.dumps(d['v'])
        if k == 'null': return 'nullptr'
        if k == 'unop': return f"{T('sub')}{d['op']}" if d.get('postfix') else f"{d['op']}{T('sub')}"
        if k == 'binop': return f"({T('lhs')} {d['op']} {T('rhs')})"
        if k == 'cond': return f"({T('c')} ? {T('t')} : {T('f')})"
        if k == 'subscript': return f"{T('base')}[{T('idx')}]"
        if k == 'cast': return f"({d['to']}){T('sub')}"
        if k == 'sizeof': return f"sizeof({d.get('argtype') or T('sub')})"
        if k == 'call':
            args = [a.text(depth + 1) if a else '∅' for a in self.ns('args')]
            if d.get('ck') == 'op':
                op = d.get('op')
                if len(args) == 2 and op not in ('()', '[]'): return f"({args[0]} {op} {args[1]})"
                if len(args) == 1: return f"{op}{args[0]}"
                if op == '[]' and len(args) == 2: return f"{args[0]}[{args[1]}]"
                if op == '()': return f"{args[0]}({', '.join(args[1:])})"
            name = (d.get('callee') or '?').split('::')[-1] if d.get('callee') else (T('calleeexpr'))
            if d.get('object'): return f"{T('object')}{'->' if d.get('arrow') else '.'}{name}({', '.join(args)})"
            return f"{name}({', '.join(args)})"
        if k == 'construct':
            return f"{d['class'].split('::')[-1]}({', '.join(a.text(depth + 1) if a else '∅' for a in self.ns('args'))})"
        if k == 'lambda': return f"[lambda@{(d.get('fnloc') or '').split(':')[1] if ':' in (d.get('fnloc') or '') else ''}]"
        if k == 'new': return f"new{'(' + ', '.join(a.text(depth+1) for a in self.ns('placement') if a) + ')' if d.get('placement') else ''} {d['alloctype']}({T('init') if self.n('init') else ''})"
        if k == 'delete': return f"delete {T('sub')}"
        if k == 'return': return f"return {T('sub') if self.n('sub') else ''}"
        if k == 'throw': return f"throw {T('sub') if self.n('sub') else ''}"
        if k == 'decl': return '; '.join(f"{v['type']} {v['name']}" + (f" = {Node(self.tu, v['init']).text(depth+1)}" if v.get('init') else '') for v in d['vars'])
        if k == 'initlist': return '{' + ', '.join(a.text(depth + 1) if a else '∅' for a in self.ns('args')) + '}'
        if k == 'designated': return T('init')
        if k == 'pseudodtor': return f"{T('base')}.~T()"
        if k == 'if': return f"if ({T('c')}) …"
        if k == 'valueinit': return 'T()'
        return k


def strip_targs(s):
    """remove balanced <...> template argument lists (not the ones of operator<, operator<=, operator<<, operator->)"""
    out = []; depth = 0; i = 0
    while i < len(s):
        c = s[i]
        if c == '<' and depth == 0 and re.search(r'operator\s*<?$', ''.join(out)):
            out.append(c); i += 1; continue
        if c == '<': depth += 1
        elif c == '>' and depth > 0:
            depth -= 1
            i += 1; continue
        if depth == 0: out.append(c)
        i += 1
    return ''.join(out)


class Elem:
    """one CFG element"""
    __slots__ = ('kind', 'node', 'info')

    def __init__(self, kind, node, info):
        self.kind = kind; self.node = node; self.info = info


class Block:
    __slots__ = ('id', 'elems', 'term', 'cond', 'succs', 'noreturn', 'termstmt', 'label', 'labelv')


class CFG:
    def __init__(self, fn, d):
        self.fn = fn; tu = fn.tu
        self.entry = d['entry']; self.exit = d['exit']
        self.blocks = {}
        for b in d['blocks']:
            B = Block(); B.id = b['id']; B.elems = []
            for e in b['elems']:
                if 's' in e and e['s'] is not None:
                    kind = 'init' if ('initfield' in e or 'initbase' in e or 'initdelegating' in e) else 'stmt'
                    B.elems.append(Elem(kind, Node(tu, e['s']), e))
                elif 'autodtor' in e: B.elems.append(Elem('autodtor', None, e))
                elif 'tmpdtor' in e: B.elems.append(Elem('tmpdtor', None, e))
                elif 'memberdtor' in e: B.elems.append(Elem('memberdtor', None, e))
                elif 'basedtor' in e: B.elems.append(Elem('basedtor', None, e))
                elif 'deletedtor' in e: B.elems.append(Elem('deletedtor', Node(tu, e['deletedtor']) if e['deletedtor'] else None, e))
                else: B.elems.append(Elem('other', None, e))
            B.term = b.get('term'); B.cond = Node(tu, b['cond']) if b.get('cond') else None
            B.termstmt = Node(tu, b['termstmt']) if b.get('termstmt') else None
            B.succs = b['succs']; B.noreturn = b.get('noreturn', False)
            B.label = b.get('label'); B.labelv = Node(tu, b['labelv']) if b.get('labelv') else None
            if b.get('labelrange'): B.label = 'case-range'
            self.blocks[B.id] = B
        self.preds = collections.defaultdict(list)
        for B in self.blocks.values():
            for s in B.succs:
                if s is not None: self.preds[s].append(B.id)
        self.pos = {}
        for B in self.blocks.values():
            for i, e in enumerate(B.elems):
                if e.node is not None and e.kind in ('stmt', 'init') and e.node.id not in self.pos:
                    self.pos[e.node.id] = (B.id, i)
        self._dom = None; self._pdom = None; self._reach = None

    # ---- graph helpers ----------------------------------------------------------
    def rpo(self):
        seen = set(); order = []
        def dfs(b):
            st = [(b, iter([s for s in self.blocks[b].succs if s is not None]))]
            seen.add(b)
            while st:
                node, it = st[-1]
                adv = False
                for s in it:
                    if s not in seen:
                        seen.add(s); st.append((s, iter([x for x in self.blocks[s].succs if x is not None]))); adv = True; break
                if not adv:
                    order.append(node); st.pop()
        dfs(self.entry)
        return list(reversed(order))

    def _dominators(self, entry, preds_of, succs_of):
        nodes = set(self.blocks)
        reach = set(); st = [entry]
        while st:
            b = st.pop()
            if b in reach: continue
            reach.add(b); st.extend(succs_of(b))
        dom = {b: set(reach) for b in reach}; dom[entry] = {entry}
        changed = True
        while changed:
            changed = False
            for b in reach:
                if b == entry: continue
                ps = [dom[p] for p in preds_of(b) if p in reach]
                new = (set.intersection(*ps) if ps else set()) | {b}
                if new != dom[b]: dom[b] = new; changed = True
        return dom

    @property
    def dom(self):
        if self._dom is None:
            self._dom = self._dominators(self.entry, lambda b: self.preds[b], lambda b: [s for s in self.blocks[b].succs if s is not None])
        return self._dom

    @property
    def pdom(self):
        if self._pdom is None:
            self._pdom = self._dominators(self.exit, lambda b: [s for s in self.blocks[b].succs if s is not None], lambda b: self.preds[b])
        return self._pdom

    def block_reach(self, a):
        """blocks reachable from block a by >=1 edge"""
        if self._reach is None: self._reach = {}
        if a not in self._reach:
            seen = set(); st = [s for s in self.blocks[a].succs if s is not None]
            while st:
                b = st.pop()
                if b in seen: continue
                seen.add(b); st.extend(s for s in self.blocks[b].succs if s is not None)
            self._reach[a] = seen
        return self._reach[a]

    def position(self, node):
        return self.pos.get(node.id)

    def dominates(self, a, b):
        """element a (Node) executes before b on every path reaching b"""
        pa, pb = self.pos.get(a.id), self.pos.get(b.id)
        if pa is None or pb is None: return False
        if pa[0] == pb[0]: return pa[1] < pb[1]
        return pa[0] in self.dom.get(pb[0], ())

    def reaches(self, a, b):
        """some path executes a and later b"""
        pa, pb = self.pos.get(a.id), self.pos.get(b.id)
        if pa is None or pb is None: return False
        if pa[0] == pb[0] and pa[1] < pb[1]: return True
        return pb[0] in self.block_reach(pa[0])

    def elements(self):
        for bid in self.rpo():
            B = self.blocks[bid]
            for i, e in enumerate(B.elems):
                yield bid, i, e

    def forward(self, start, stop_pred, from_after=True):
        """BFS over element positions from `start` (block, idx); yields every element reached; does not
        continue past elements for which stop_pred(elem) is true.  Returns (reached_exit, visited elems)."""
        seen = set(); out = []; reached_exit = False
        st = [(start[0], start[1] + (1 if from_after else 0))]
        while st:
            b, i = st.pop()
            B = self.blocks[b]
            while True:
                if (b, i) in seen: break
                seen.add((b, i))
                if i >= len(B.elems):
                    if b == self.exit: reached_exit = True
                    for s in B.succs:
                        if s is not None: st.append((s, 0))
                    if not [s for s in B.succs if s is not None] and b != self.exit and not B.noreturn:
                        pass
                    break
                e = B.elems[i]
                out.append((b, i, e))
                if stop_pred(e): break
                i += 1
        return reached_exit, out

    def branch_edges(self, bid):
        """(true_succ, false_succ) for a two-way conditional block"""
        B = self.blocks[bid]
        if B.cond is None or len(B.succs) != 2: return None
        return B.succs[0], B.succs[1]


class Fn:
    def __init__(self, tu, d):
        self.tu = tu; self.d = d
        self.name = d['name']; self.qname = d['qname']; self.loc = d['loc']
        self.gname = strip_targs(d['qname'])      # generic name: no template arguments anywhere
        self._cfg = None

    def __getattr__(self, k):
        if k.startswith('__'): raise AttributeError(k)
        return self.d.get(k)

    def __repr__(self): return f'<Fn {self.name} @{self.shortloc()}>'

    @property
    def sig(self):
        return self.name + '(' + ','.join(p['ctype'] for p in self.d['params']) + ')'

    @property
    def body(self):
        return Node(self.tu, self.d['body']) if self.d.get('body') else None

    @property
    def cfg(self):
        if self._cfg is None and self.d.get('cfg'): self._cfg = CFG(self, self.d['cfg'])
        return self._cfg

    def shortloc(self):
        p = self.loc.split(':'); return f'{p[0]}:{p[1]}' if len(p) >= 2 else self.loc

    @property
    def file(self): return self.loc.split(':')[0]

    @property
    def line(self):
        p = self.loc.split(':'); return int(p[1]) if len(p) > 1 else 0

    def nodes(self):
        b = self.body
        if b is not None:
            yield from b.walk()
        for i in self.d.get('inits', []) or []:
            if i.get('init'): yield from Node(self.tu, i['init']).walk()

    def param(self, i):
        return self.d['params'][i] if i < len(self.d['params']) else None

    def lambdas(self):
        return [self.tu.facts.lambda_fn(n) for n in self.nodes() if n.k == 'lambda']


class TU:
    def __init__(self, facts, path, name, transform=None):
        self.facts = facts; self.name = name
        d = json.load(open(path))
        if transform is not None: d = transform(d)
        self.ex = d['exprs']
        self.functions = [Fn(self, f) for f in d['functions']]
        self.classes = d['classes']
        self.globals = d.get('globals', [])
        self.diagnostics = d.get('diagnostics', [])


class Facts:
    def __init__(self, facts_dir, tus, transform=None):
        from frontend import fact_name
        self.tus = []; self.dir = facts_dir; self.roles = {}
        for t in tus:
            p = os.path.join(facts_dir, fact_name(t))
            if not os.path.exists(p): raise FileNotFoundError(p)
            self.tus.append(TU(self, p, t, transform))
        self.fns = []            # unique functions (first TU wins) keyed by (sig, loc)
        self.by_key = {}
        self.by_name = collections.defaultdict(list)
        self.by_sig = collections.defaultdict(list)
        self.by_loc = {}
        for tu in self.tus:
            for f in tu.functions:
                key = (f.sig, f.loc)
                if key in self.by_key: continue
                self.by_key[key] = f; self.fns.append(f)
                self.by_name[f.name].append(f); self.by_sig[f.sig].append(f)
                self.by_loc.setdefault((f.loc, f.name), f)
        self.classes = {}
        for tu in self.tus:
            for c in tu.classes:
                self.classes.setdefault(c['fullname'], dict(c, _tu=tu))
        self.globals = {}
        for tu in self.tus:
            for g in tu.globals:
                self.globals.setdefault(g['qname'], dict(g, _tu=tu))

    # ---- lookup -----------------------------------------------------------------
    def fn(self, name, unique=True):
        """function(s) whose name (with template arguments) equals `name`"""
        c = self.by_name.get(name, [])
        if unique:
            return c[0] if len(c) == 1 else None
        return c

    def fns_q(self, qname):
        """all functions (instantiations) with this qualified name (template args stripped)"""
        return [f for f in self.fns if f.qname == qname]

    def fns_g(self, gname):
        """all functions whose generic name (template arguments stripped everywhere) is gname"""
        return [f for f in self.fns if f.gname == gname]

    def cls(self, fullname):
        return self.classes.get(fullname)

    def classes_q(self, qname):
        return [c for c in self.classes.values() if c['name'] == qname]

    def field(self, cls_full, name):
        c = self.classes.get(cls_full)
        if not c: return None
        for f in c['fields']:
            if f['name'] == name: return f
        return None

    def lambda_fn(self, lam):
        loc = lam.d.get('fnloc')
        fd = lam.d.get('fndecl')
        if fd:
            # the call operator of this very closure type (instantiations of one template share name and location)
            for f in lam.tu.functions:
                if f.d.get('decl') == fd and f.d.get('lambda'): return f
        for tu in [lam.tu] + self.tus:
            for f in tu.functions:
                if f.loc == loc and f.d.get('lambda') and f.name == lam.d.get('fn'): return f
        # generic lambda: the instantiated call operator carries template arguments in its name
        for tu in [lam.tu] + self.tus:
            for f in tu.functions:
                if f.loc == loc and f.d.get('lambda'): return f
        return None

    def resolve(self, call):
        """tulz-defined function(s) a call / construct node may invoke (virtual -> overriders too)"""
        d = call.d
        if call.k == 'construct':
            name = d.get('ctor'); params = d.get('params') or []
        else:
            name = d.get('callee'); params = d.get('params') or []
        if not name: return []
        sig = name + '(' + ','.join(params) + ')'
        out = list(self.by_sig.get(sig, []))
        if not out:
            out = [f for f in self.by_name.get(name, []) if len(f.d['params']) == len(params)]
        if len(out) > 1:
            # the declaration overload resolution chose (ids are per translation unit): tells apart instantiations that print alike
            di = d.get('callee_decl') or d.get('ctor_decl')
            same = [f for f in out if f.tu is call.tu and f.d.get('decl') == di] if di else []
            if same: out = same
        if len(out) > 1:
            dl = d.get('callee_def') or d.get('ctor_def')
            same = [f for f in out if f.loc == dl]
            if same: out = same
        if len(out) > 1 and 'mconst' in d:
            # overloads that differ only in the const qualifier of the member function: the call names the one overload resolution chose
            same = [f for f in out if bool(f.d.get('const')) == bool(d.get('mconst'))]
            if same: out = same
        if d.get('virtual') and not d.get('qualified'):
            for f in self.fns:
                for o in f.d.get('overrides') or []:
                    if o['name'] == name and f not in out: out.append(f)
        return out

    def diagnostics(self):
        return [dict(tu=t.name, **d) for t in self.tus for d in t.diagnostics]
