"""A4 for string guards: evaluate a boolean expression over string-valued variables on an exhaustive table of
representative strings (all strings of length <= 4 over the alphabet {characters that occur as literals in the
expression} + one character standing for every other character).  The expressions supported only look at characters at
small constant indices, the last character, emptiness and equality with literals, so the table is a complete partition.
Nothing is executed: the AST of the condition is interpreted."""
import itertools
from facts import Node, Inconclusive, strip_targs


class Unsupported(Exception):
    pass


def literals_in(nodes):
    chars = set(); strs = set()
    for n in nodes:
        # the text of an assert (condition, file name, function name handed to __assert_fail) is not data the function works on
        skip = set()
        for x in n.walk():
            if x.k == 'call' and (x.calleeq or '').split('::')[-1] in ('__assert_fail', '__assert', '_assert', '__assert_perror_fail'):
                skip |= {y.id for y in x.walk()}
        for x in n.walk():
            if x.id in skip: continue
            if x.k == 'char': chars.add(chr(x.v) if 0 <= x.v < 256 else 'x')
            if x.k == 'str':
                strs.add(x.v)
                for ch in x.v: chars.add(ch)
            if x.k == 'ref' and x.dk == 'global' and 'const' in x.d and 0 < x.d['const'] < 128: chars.add(chr(x.d['const']))
    chars.discard('\0')
    return chars, strs


def table(chars, maxlen=4, other='x'):
    # keep the tables enumerable whatever literals the code mentions (a log message, a long extension list): separators and other punctuation
    # first, at most nine characters besides the stand-in for 'any other character'
    alpha = sorted(chars, key=lambda ch: (ch.isalnum(), ch))[:9] + [other]
    for L in range(0, maxlen + 1):
        for t in itertools.product(alpha, repeat=L):
            yield ''.join(t)


class StrEval:
    """interpret a condition / small string expression; env: decl -> python str; unknown constructs raise Unsupported"""
    def __init__(self, env, facts=None, fn_resolver=None):
        self.env = env; self.facts = facts

    def s(self, n):
        """string value"""
        k = n.k
        if k == 'ref':
            if n.decl in self.env: return self.env[n.decl]
            raise Unsupported(f'variable {n.name}')
        if k == 'str': return n.v
        if k == 'member' and n.field and n.decl in self.env: return self.env[n.decl]
        if k == 'member' and n.field and ('field:' + n.name) in self.env: return self.env['field:' + n.name]
        if k == 'cast': return self.s(n.n('sub'))
        if k in ('paren', 'materialize', 'bindtemp') and n.n('sub') is not None: return self.s(n.n('sub'))
        if k == 'cond': return self.s(n.n('t')) if self.b(n.n('c')) else self.s(n.n('f'))
        if k == 'construct' and len([a for a in n.ns('args') if a is not None]) >= 1:
            return self.s([a for a in n.ns('args') if a is not None][0])
        if k == 'call':
            base = n.callee_base(); q = strip_targs(n.calleeq or '')
            args = [a for a in n.ns('args') if a is not None]
            if base in ('c_str', 'data', 'toString') and n.n('object') is not None: return self.s(n.n('object'))
            if n.ck == 'op' and n.op == '+' and len(args) == 2:
                a, b = self.sc(args[0]), self.sc(args[1])
                return a + b
            if base == 'operator basic_string_view' and n.n('object') is not None: return self.s(n.n('object'))
        raise Unsupported(f'string expression {n.text()[:40]}')

    def sc(self, n):
        """string or single character as string"""
        try:
            return self.s(n)
        except Unsupported:
            c = self.c(n)
            return c

    def c(self, n):
        """character value (as 1-char str, '' for NUL / out of range)"""
        k = n.k
        if k == 'char': return chr(n.v) if n.v else ''
        if k == 'int': return chr(n.v) if 0 < n.v < 256 else ''
        if k == 'ref' and n.decl in self.env and isinstance(self.env[n.decl], str) and len(self.env[n.decl]) <= 1: return self.env[n.decl]          # a char local bound on the way
        if k == 'ref' and 'const' in n.d: return chr(n.d['const']) if 0 < n.d['const'] < 256 else ''
        if k == 'cast': return self.c(n.n('sub'))
        if k == 'subscript':
            s = self.s(n.n('base')); i = self.i(n.n('idx'))
            return s[i] if 0 <= i < len(s) else ''
        if k == 'call':
            base = n.callee_base()
            obj = n.n('object')
            args = [a for a in n.ns('args') if a is not None]
            if n.ck == 'op' and n.op == '[]' and len(args) == 2:
                s = self.s(args[0]); i = self.i(args[1]); return s[i] if 0 <= i < len(s) else ''
            if base == 'back' and obj is not None:
                s = self.s(obj)
                if not s: raise Unsupported('back() of an empty string')
                return s[-1]
            if base == 'front' and obj is not None:
                s = self.s(obj)
                if not s: raise Unsupported('front() of an empty string')
                return s[0]
            if base == 'at' and obj is not None:
                s = self.s(obj); i = self.i(args[0]); return s[i] if 0 <= i < len(s) else ''
        if k == 'unop' and n.op == '*':
            return (self.s(n.n('sub')) + '\0')[0].replace('\0', '')
        raise Unsupported(f'char expression {n.text()[:40]}')

    def i(self, n):
        k = n.k
        if k == 'int': return n.v
        if 'const' in n.d and k != 'call': return n.d['const']
        if k == 'ref' and n.decl in self.env and isinstance(self.env[n.decl], int) and not isinstance(self.env[n.decl], bool): return self.env[n.decl]
        if k == 'cast': return self.i(n.n('sub'))
        if k == 'binop' and n.op in ('+', '-'):
            a, b = self.i(n.n('lhs')), self.i(n.n('rhs')); return a + b if n.op == '+' else a - b
        if k == 'call':
            base = n.callee_base(); obj = n.n('object')
            args = [a for a in n.ns('args') if a is not None]
            q = strip_targs(n.calleeq or '')
            if base in ('size', 'length') and obj is not None: return len(self.s(obj))
            if base in ('find', 'find_first_of', 'rfind', 'find_last_of') and obj is not None and args:
                s = self.s(obj)
                try: needle = self.s(args[0])
                except Unsupported: needle = self.c(args[0])
                if base == 'find': r = s.find(needle)
                elif base == 'rfind': r = s.rfind(needle)
                elif base == 'find_first_of': r = min([s.find(ch) for ch in needle if ch in s] or [-1])
                else: r = max([s.rfind(ch) for ch in needle] or [-1])
                return r if r >= 0 else 2 ** 64 - 1
            if q in ('strcmp', 'std::strcmp') and len(args) == 2:
                a, b = self.s(args[0]), self.s(args[1]); return (a > b) - (a < b)
            if q in ('strlen', 'std::strlen'): return len(self.s(args[0]))
        if k == 'ref' and n.qname and n.qname.endswith('npos'): return 2 ** 64 - 1
        if k == 'member' and n.name == 'npos': return 2 ** 64 - 1
        raise Unsupported(f'integer expression {n.text()[:40]}')

    def b(self, n):
        k = n.k
        if k == 'bool': return bool(n.v)
        if k == 'cond': return self.b(n.n('t')) if self.b(n.n('c')) else self.b(n.n('f'))
        if k == 'paren' and n.n('sub') is not None: return self.b(n.n('sub'))
        if k == 'unop' and n.op == '!': return not self.b(n.n('sub'))
        if k == 'cast': return self.b(n.n('sub'))
        if k == 'binop':
            op = n.op
            if op == '&&': return self.b(n.n('lhs')) and self.b(n.n('rhs'))
            if op == '||': return self.b(n.n('lhs')) or self.b(n.n('rhs'))
            if op in ('==', '!=', '<', '>', '<=', '>='):
                l, r = n.n('lhs'), n.n('rhs')
                for f in (self.i, self.c):
                    try:
                        a, bb = f(l), f(r)
                        import operator
                        return {'==': operator.eq, '!=': operator.ne, '<': operator.lt, '>': operator.gt, '<=': operator.le, '>=': operator.ge}[op](a, bb)
                    except Unsupported:
                        continue
                raise Unsupported(f'comparison {n.text()[:50]}')
        if k == 'call':
            base = n.callee_base(); obj = n.n('object'); args = [a for a in n.ns('args') if a is not None]
            if base == 'empty' and obj is not None: return self.s(obj) == ''
            if n.ck == 'op' and n.op in ('==', '!=') and len(args) == 2:
                a, bb = self.s(args[0]), self.s(args[1]); return (a == bb) if n.op == '==' else (a != bb)
            if base in ('isalpha', 'isdigit', 'isalnum', 'isspace', 'isupper', 'islower', 'ispunct') and len(args) == 1 and not n.callee_in_root:
                ch = self.c(args[0])
                if ch == '': return False
                return {'isalpha': ch.isalpha, 'isdigit': ch.isdigit, 'isalnum': ch.isalnum, 'isspace': ch.isspace, 'isupper': ch.isupper, 'islower': ch.islower,
                        'ispunct': (lambda: (not ch.isalnum()) and (not ch.isspace()) and ch.isprintable())}[base]() and ord(ch) < 128
            if base in ('starts_with', 'ends_with') and obj is not None:
                s = self.s(obj); t = self.sc(args[0]); return s.startswith(t) if base == 'starts_with' else s.endswith(t)
            fr = self.call_bool(n)
            if fr is not None: return fr
        if k == 'ref' and n.decl in self.env and isinstance(self.env[n.decl], bool): return self.env[n.decl]
        raise Unsupported(f'boolean expression {n.text()[:50]}')

    def call_bool(self, n):
        """boolean helper defined in tulz (e.g. isAbsolutePath(p)): interpret its single return expression"""
        if self.facts is None or not n.callee_in_root: return None
        ts = self.facts.resolve(n)
        if len(ts) != 1: return None
        t = ts[0]
        rets = [x for x in t.nodes() if x.k == 'return']
        env = {}
        args = [a for a in n.ns('args') if a is not None]
        for p, a in zip(t.d['params'], args): env[p['decl']] = self.sc(a)
        obj = n.n('object')
        sub = StrEval(env, self.facts)
        if obj is not None:
            try: sub.env['field:m_path'] = self.s(obj)
            except Unsupported: pass
        if len(rets) == 1 and rets[0].n('sub') is not None and t.body is not None and len([x for x in t.body.ns('stmts') if x is not None]) == 1:
            return sub.b(rets[0].n('sub'))
        # guard / return table: { if (c) return e; … return e; }  (declarations of const locals are bound on the way)
        if t.body is None: raise Unsupported(f'helper {t.name} has no body')
        for st in t.body.ns('stmts'):
            if st is None: continue
            if st.k == 'if':
                c = sub.b(st.n('c'))
                br = st.n('t') if c else st.n('f')
                if br is None: continue
                r = [x for x in br.walk() if x.k == 'return']
                if not r: raise Unsupported('branch without return')
                return sub.b(r[0].n('sub'))
            if st.k == 'return': return sub.b(st.n('sub'))
            if st.k == 'decl':
                for v in st.vars:
                    if not v.get('init'): raise Unsupported(f'uninitialised local {v["name"]}')
                    init = Node(t.tu, v['init'])
                    for f_ in (sub.b, sub.s, sub.i, sub.c):
                        try: sub.env[v['decl']] = f_(init); break
                        except Unsupported: continue
                    else: raise Unsupported(f'local {v["name"]}')
                continue
            raise Unsupported(f'statement {st.k} in helper {t.name}')
        raise Unsupported(f'helper {t.name}: no return reached')
