"""Thorough tier: an independent second reading of the mutex discipline from LLVM IR (-O0, typed pointers, LLVM 14).

For a class C with a mutex field M and state fields S, every instruction that computes the address of a state field
(`getelementptr %class.C, %class.C* x, i32 0, i32 <s>`) must execute with M held.  "Held" is a forward must-analysis on
the IR CFG: gen at std::mutex::lock / the constructors of unique_lock, scoped_lock, lock_guard on `gep C, M`; kill at
unlock / the guard's destructor / unique_lock::unlock.  Entry states of functions that are only called from inside the
module (private helpers, closures, the std::condition_variable::wait<pred> instantiation) are the intersection over their
call sites (fixpoint).  This re-derives RES.1 / TP.2 without the AST front end of tulz-facts; it shares only clang itself.
"""
import os, re, shutil, subprocess, tempfile

GUARD_CTORS = ('_ZNSt11unique_lockISt5mutexEC', '_ZNSt10lock_guardISt5mutexEC', '_ZNSt11scoped_lockIJSt5mutexEEC')
GUARD_DTORS = ('_ZNSt11unique_lockISt5mutexED', '_ZNSt10lock_guardISt5mutexED', '_ZNSt11scoped_lockIJSt5mutexEED')


def compile_ir(repo, tu):
    tmp = tempfile.mkdtemp(prefix='tulzir-')
    out = os.path.join(tmp, 'out.ll')
    r = subprocess.run(['clang++', '-std=gnu++20', '-I' + os.path.join(repo, 'include'), '-O0', '-g0', '-UNDEBUG', '-DNDEBUG', '-S', '-emit-llvm', '-Xclang', '-disable-O0-optnone', '-Wno-everything',
                        os.path.join(repo, tu), '-o', out], stdout=subprocess.PIPE, stderr=subprocess.STDOUT, text=True)
    if r.returncode or not os.path.exists(out):
        shutil.rmtree(tmp, ignore_errors=True)
        return None, r.stdout[-400:]
    s = open(out).read()
    shutil.rmtree(tmp, ignore_errors=True)
    return s, ''


def parse(ll):
    """{fn name: {'blocks': {label: [instr]}, 'order': [labels], 'params': str}}"""
    fns = {}
    cur = None; label = None
    for line in ll.split('\n'):
        if line.startswith('define '):
            m = re.search(r'@("[^"]+"|[\w.$]+)\((.*)\)', line)
            name = m.group(1).strip('"') if m else line
            cur = {'blocks': {}, 'order': [], 'params': m.group(2) if m else '', 'internal': ' internal ' in line or 'linkonce_odr' in line}
            fns[name] = cur; label = 'entry0'; cur['blocks'][label] = []; cur['order'].append(label)
            continue
        if cur is None: continue
        if line.startswith('}'):
            cur = None; continue
        m = re.match(r'^([\w.$-]+):', line)
        if m:
            label = m.group(1); cur['blocks'][label] = []; cur['order'].append(label); continue
        t = line.strip()
        if t: cur['blocks'][label].append(t)
    return fns


def succs(block, order, label):
    if not block: return []
    last = block[-1]
    out = re.findall(r'label %([\w.$-]+)', last)
    if last.startswith(('ret', 'unreachable', 'resume')): return []
    return out


def analyse(ll, cls, mutex_idx, state_idx, public_entry):
    """returns (violations [(fn, instr)], stats)"""
    fns = parse(ll)
    cname = re.escape(f'%"class.{cls}"')
    gep_re = re.compile(r'(%[\w.]+) = getelementptr inbounds ' + cname + r', ' + cname + r'\* (%[\w.]+), i32 0, i32 (\d+)')
    call_re = re.compile(r'(?:call|invoke) [^@]*@("[^"]+"|[\w.$]+)\((.*)\)')
    # which functions matter: those that touch state, plus everything on call paths between them
    entry = {f: None for f in fns}            # None = unknown (top), frozenset = must-held tokens
    for f in fns:
        if public_entry(f): entry[f] = frozenset()
    callers = {f: [] for f in fns}
    results = {}
    changed = True; rounds = 0
    while changed and rounds < 12:
        changed = False; rounds += 1
        callsite_states = {f: [] for f in fns}
        for f, F in fns.items():
            if entry[f] is None: continue
            IN = {F['order'][0]: entry[f]}
            work = [F['order'][0]]
            seen_out = {}
            viol = []
            accesses = 0
            it = 0
            while work and it < 2000:
                it += 1
                lab = work.pop()
                held = set(IN[lab])
                regs = F.setdefault('regs', {})
                for ins in F['blocks'][lab]:
                    m = gep_re.search(ins)
                    if m:
                        regs[m.group(1)] = int(m.group(3))
                        if int(m.group(3)) in state_idx:
                            accesses += 1
                            if 'M' not in held: viol.append((f, ins.strip()[:140]))
                    c = call_re.search(ins)
                    if c:
                        callee = c.group(1).strip('"'); args = c.group(2)
                        argregs = re.findall(r'(%[\w.]+)(?=[,)]|$)', args)
                        on_mutex = any(regs.get(a) == mutex_idx for a in argregs)
                        if callee.startswith('_ZNSt5mutex4lockEv') and on_mutex: held.add('M')
                        elif callee.startswith('_ZNSt5mutex6unlockEv') and on_mutex: held.discard('M')
                        elif callee.startswith(GUARD_CTORS) and on_mutex:
                            held.add('M'); F.setdefault('guards', set()).add(argregs[0] if argregs else '')
                        elif callee.startswith(GUARD_DTORS) and argregs and argregs[0] in F.get('guards', set()): held.discard('M')
                        elif callee.startswith('_ZNSt11unique_lockISt5mutexE6unlockEv') and argregs and argregs[0] in F.get('guards', set()): held.discard('M')
                        elif callee.startswith('_ZNSt11unique_lockISt5mutexE4lockEv') and argregs and argregs[0] in F.get('guards', set()): held.add('M')
                        elif callee in fns:
                            callsite_states[callee].append(frozenset(held))
                out = frozenset(held)
                for s in succs(F['blocks'][lab], F['order'], lab):
                    if s not in F['blocks']: continue
                    new = out if s not in IN else (IN[s] & out)
                    if s not in IN or new != IN[s]:
                        IN[s] = new; work.append(s)
            results[f] = (viol, accesses)
        for f in fns:
            if public_entry(f): continue
            sts = callsite_states[f]
            if not sts: continue
            new = frozenset.intersection(*sts)
            newv = new if entry[f] is None else (entry[f] & new)
            if entry[f] is None or newv != entry[f]:
                entry[f] = newv
                changed = True
    viols = []; total = 0; fcount = 0
    for f, (v, a) in results.items():
        if a: fcount += 1
        total += a; viols += v
    # de-duplicate (fixpoint rounds)
    viols = sorted(set(viols))
    return viols, dict(functions_touching_state=fcount, state_address_computations=total, rounds=rounds)


def demangle(names):
    r = subprocess.run(['llvm-cxxfilt-14'] + list(names), stdout=subprocess.PIPE, text=True)
    return dict(zip(names, r.stdout.strip().split('\n'))) if r.returncode == 0 else {n: n for n in names}


def check_class(repo, tu, facts, cls, mutex_field, state_fields, public_pred):
    """runs the IR reading for one class; returns (ok, violations, stats, error)"""
    c = facts.cls(cls)
    if c is None: return None, [], {}, f'class {cls} not in the facts'
    order = [f['name'] for f in c['fields']]
    if mutex_field not in order or any(s not in order for s in state_fields): return None, [], {}, 'fields not found'
    if c.get('polymorphic') or c.get('bases'): return None, [], {}, 'class has bases / a vtable: field indices would be shifted'
    ll, err = compile_ir(repo, tu)
    if ll is None: return None, [], {}, 'clang could not emit IR: ' + err
    fns = parse(ll)
    dm = demangle([f for f in fns])
    ctor_prefix = cls + '::' + cls.split('::')[-1] + '('
    def public_entry(f):
        d = dm.get(f, f)
        return public_pred(d) or d.startswith(ctor_prefix)
    viols, stats = analyse(ll, cls, order.index(mutex_field), {order.index(s) for s in state_fields}, public_entry)
    viols = [(dm.get(f, f), ins) for f, ins in viols if not dm.get(f, f).startswith(ctor_prefix) and '::~' not in dm.get(f, f)]
    return (not viols), viols, stats, ''
