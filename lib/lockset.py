"""A1-A3 + A9: context-sensitive lockset / access-path / effect engine over the CFG facts.

For a root function it walks the CFG (must-lockset as forward dataflow, intersection at joins), inlines
every callee defined in tulz in the caller's context (depth-bounded, memoised), resolves each field access
to an *access path* relative to the root frame (aliases through reference locals, parameters, captures,
structured bindings, smart-pointer / container element access), and records

    Access(class, field, R|W, path, locks held, root, call chain, site)

Locks are RAII guards (std::unique_lock / scoped_lock / lock_guard on a mutex, rwp::ReadLock / WriteLock
on a Resource), explicit mutex.lock()/unlock(), and condition_variable::wait (lock held around the
predicate).  Thread entry points (callables handed to std::thread) are collected as further roots.
"""
import collections, re
from facts import Node, Inconclusive, strip_targs

MUTEX_GUARDS = ('std::unique_lock', 'std::scoped_lock', 'std::lock_guard', 'std::shared_lock')
RW_GUARDS = {'tulz::rwp::ReadLock': 'R', 'tulz::rwp::WriteLock': 'W'}


def guard_mode(cls):
    """R (shared) / W (exclusive on a reader-writer lock) / X (exclusive on a plain mutex) for a guard class"""
    if cls in RW_GUARDS: return RW_GUARDS[cls]
    return 'R' if cls.startswith('std::shared_lock') else 'X'
ASSIGN_OPS = {'=', '+=', '-=', '*=', '/=', '%=', '|=', '&=', '^=', '<<=', '>>='}
# non-const std member functions that do not modify the container/pointer itself
NONMUT = {'find', 'begin', 'end', 'cbegin', 'cend', 'rbegin', 'rend', 'front', 'back', 'at', 'get', 'operator*', 'operator->',
          'size', 'empty', 'contains', 'lower_bound', 'upper_bound', 'equal_range', 'count', 'data', 'c_str', 'joinable',
          'wait', 'wait_for', 'wait_until', 'notify_one', 'notify_all', 'lock', 'unlock', 'try_lock', 'load', 'join', 'native_handle',
          'before_begin', 'cbefore_begin', 'owns_lock', 'get_id', 'length', 'value', 'has_value'}
# element-of accessors: result designates an element (or the pointee) of the object
_READ_ALGO = re.compile(r'std::(ranges::)?(__)?(transform|find|find_if|find_if_not|any_of|all_of|none_of|count|count_if|for_each|for_each_n|copy|copy_if|copy_n|accumulate|equal|mismatch|'
                        r'min_element|max_element|minmax_element|lower_bound|upper_bound|equal_range|binary_search|contains|distance|begin|end|cbegin|cend|size|ssize|empty|adjacent_find|search|is_sorted|'
                        r'includes|lexicographical_compare|reduce|inner_product)(_fn)?(::operator\(\))?$')


def _is_iter(v):
    # a standard iterator local designates an element of the container it was obtained from
    return 'iterator' in (v.get('ctype') or '').lower() and not v.get('isref')


ELEMENT_OF = {'front', 'back', 'at', 'operator[]', 'operator*', 'operator->', 'get', 'begin', 'end', 'find', 'data', 'cbegin', 'cend', 'value'}
TRANSPARENT_STD = {'std::move', 'std::forward', 'std::as_const', 'std::addressof', 'std::launder'}
STD_SYNC_ALGOS = {'std::remove_if', 'std::erase_if', 'std::any_of', 'std::all_of', 'std::none_of', 'std::find_if', 'std::for_each',
                  'std::count_if', 'std::forward_list::remove_if', 'std::list::remove_if', 'std::sort', 'std::equal', 'std::max', 'std::min'}

Access = collections.namedtuple('Access', 'cls field mode path locks root chain site fn ctor_obj node atomic')


def merge_mode(a, b):
    if a is None or a == 'N': return b
    if b == 'N': return a
    if a == b: return a
    return 'W' if 'W' in (a, b) else a


def compute_modes(fn):
    """node id -> 'R' | 'W' for every field member / variable reference in the function (syntactic context)."""
    modes = {}

    def d(n, m):
        if n is None: return
        k = n.k
        if k == 'member':
            modes[n.id] = merge_mode(modes.get(n.id), m)
            b = n.n('base')
            if n.field: d(b, 'R' if n.arrow else ('N' if m == 'N' else m))
            else: d(b, 'R')
            return
        if k == 'ref':
            modes[n.id] = merge_mode(modes.get(n.id), m); return
        if k == 'this': return
        if k == 'binop':
            op = n.op
            if op in ASSIGN_OPS: d(n.n('lhs'), 'W'); d(n.n('rhs'), 'R')
            elif op == ',': d(n.n('lhs'), 'R'); d(n.n('rhs'), m)
            else: d(n.n('lhs'), 'R'); d(n.n('rhs'), 'R')
            return
        if k == 'unop':
            if n.op in ('++', '--'): d(n.n('sub'), 'W')
            elif n.op == '&': d(n.n('sub'), m)
            elif n.op == '*': d(n.n('sub'), 'R')
            else: d(n.n('sub'), 'R')
            return
        if k == 'subscript':
            d(n.n('base'), m); d(n.n('idx'), 'R'); return
        if k == 'cast':
            d(n.n('sub'), m); return
        if k == 'cond':
            d(n.n('c'), 'R'); d(n.n('t'), m); d(n.n('f'), m); return
        if k == 'call':
            q = n.calleeq or ''
            base = q.split('::')[-1]
            args = n.ns('args'); params = n.params or []
            inroot = bool(n.callee_in_root)
            if q in TRANSPARENT_STD and args:
                d(args[0], m if m == 'W' else ('W' if n.cat == 'x' and q != 'std::as_const' and False else m)); return
            obj = n.n('object')
            off = 0
            if n.ck == 'op' and 'mclass' in n.d:
                off = 1
                if args:
                    if inroot or n.mconst: d(args[0], 'R')
                    elif n.op in ('*', '->', '()', '==', '!=', '<', '>', '<=', '>=') or (n.op == '[]' and not q.startswith(('std::map', 'std::unordered_map'))): d(args[0], 'R')
                    else: d(args[0], 'W')
            if obj is not None:
                if inroot or n.mconst or base in NONMUT: d(obj, 'R')
                else: d(obj, 'W')
            if n.n('calleeexpr') is not None: d(n.n('calleeexpr'), 'R')
            for i, a in enumerate(args):
                if i < off: continue
                pt = params[i - off] if 0 <= i - off < len(params) else ''
                if inroot: d(a, 'R')
                elif pt.endswith('&&'):
                    # forwarding / rvalue reference of a std API: consumes (moves from) an xvalue argument, reads an lvalue one
                    d(a, 'W' if (a is not None and _is_xvalue(a)) else 'R')
                elif pt.endswith('&') and not pt.startswith('const ') and _READ_ALGO.match(q):
                    # a range handed to a non-modifying standard algorithm (a collapsed forwarding reference `_Range&&`): read
                    d(a, 'R')
                elif pt.endswith('&') and not pt.startswith('const ') and base.startswith(('emplace', 'try_emplace')) and q.startswith('std::'):
                    # a collapsed forwarding reference (Args&& with Args = T&): the element constructor copies from an lvalue
                    d(a, 'W' if (a is not None and _is_xvalue(a)) else 'R')
                elif pt.endswith('&') and not pt.startswith('const '): d(a, 'W')
                else: d(a, 'R')
            return
        if k == 'construct':
            args = n.ns('args'); params = n.params or []
            for i, a in enumerate(args):
                pt = params[i] if i < len(params) else ''
                if pt.endswith('&&') and a is not None and _is_xvalue(a): d(a, 'W')     # move construction empties the source
                elif pt.endswith('&') and not pt.startswith('const ') and not pt.endswith('&&') and not n.callee_in_root and not (n.d.get('class') or '').startswith(MUTEX_GUARDS + tuple(RW_GUARDS)):
                    d(a, 'W' if not (n.d.get('class') or '').startswith('tulz::') else 'R')
                else: d(a, 'R')
            return
        if k == 'new':
            for p in n.ns('placement'): d(p, 'W')
            d(n.n('init'), 'R'); return
        if k == 'delete':
            d(n.n('sub'), 'R'); return
        if k == 'lambda':
            for c in n.captures or []:
                if c.get('init') and c['init'] in n.tu.ex: d(Node(n.tu, c['init']), 'R')
            return
        if k == 'decl':
            for v in n.vars:
                if v.get('init'):
                    init = Node(n.tu, v['init'])
                    # binding a reference / taking an address designates the object without touching its contents ('N');
                    # the uses of the alias are recorded where they happen
                    if v.get('isref') and _designates(init): d(init, 'N')
                    elif v.get('isptr') and init.k == 'unop' and init.op == '&' and _designates(init.n('sub')): d(init.n('sub'), 'N')
                    else: d(init, 'R')
            return
        if k == 'rangefor':
            d(n.n('range'), 'R'); d(n.n('body'), 'R'); return
        for c in n.children(): d(c, 'R')

    b = fn.body
    if b is not None: d(b, 'R')
    for i in fn.d.get('inits') or []:
        if i.get('init'): d(Node(fn.tu, i['init']), 'R')
    return modes


def _designates(n):
    """expression that names an object (field / variable / element of a raw array) without computing anything"""
    while n is not None:
        if n.k in ('member', 'ref'): return n.k == 'ref' or bool(n.field)
        if n.k == 'cast': n = n.n('sub'); continue
        if n.k == 'call' and (n.calleeq or '') in TRANSPARENT_STD and n.ns('args'): n = n.ns('args')[0]; continue
        return False
    return False


def _is_xvalue(a):
    if a.cat == 'x': return True
    if a.k == 'call' and (a.calleeq in ('std::move',)): return True
    if a.k == 'call' and a.calleeq == 'std::forward' and a.cat == 'x': return True
    return False


class Env(dict):
    """decl -> access path, plus .ainfo: decl -> (class, field, ftype) for aliases that designate a field"""
    def __init__(self, *a, **k):
        super().__init__(*a, **k); self.ainfo = {}; self.clos = {}


class Frame:
    __slots__ = ('fn', 'env', 'this', 'modes', 'chain', 'depth', 'ctor_obj', 'ainfo', 'clos')

    def __init__(self, fn, env, this, chain, depth, ctor_obj=None, ainfo=None):
        self.fn = fn; self.env = env; self.this = this; self.chain = chain; self.depth = depth
        self.modes = None; self.ctor_obj = ctor_obj
        self.clos = dict(getattr(env, 'clos', None) or {})       # decl -> (lambda node, defining frame): closure objects held in variables
        self.ainfo = dict(ainfo or getattr(env, 'ainfo', None) or {})      # alias decl -> (class, field, ftype) of the field the alias designates


class Engine:
    def __init__(self, facts, max_depth=7, no_inline=(), opaque_classes=()):
        self.facts = facts
        self.max_depth = max_depth
        self.no_inline = set(no_inline)            # qualified names never inlined (treated as primitives)
        self.accesses = []
        self.thread_roots = []                     # (lambda Fn, env, creator chain)
        self.lock_order = set()                    # (held token, acquired token, site)
        self.unbalanced = []                       # (fn, site, detail)
        self.events = []                           # (kind, node, locks, root, chain): calls of interest for the rules
        self.opaque_calls = []                     # calls through std::function / function pointers (user callbacks)
        self._modes = {}
        self._memo = set()
        self.reacquire = []                        # same lock acquired while held
        self.unresolved_threads = []               # std::thread constructions whose body is not a (tracked) lambda
        self.depth_cut = []

    # ---- paths ------------------------------------------------------------------------------------------------
    def path_of(self, n, fr):
        """access path (tuple) of the object designated by expression n in frame fr, or ('?', id)"""
        if n is None: return ('?',)
        k = n.k
        if k == 'this': return fr.this
        if k == 'ref':
            dk = n.dk
            if n.decl in fr.env: return fr.env[n.decl]
            if dk == 'binding':
                b = Node(n.tu, n.binding) if n.binding and n.binding in n.tu.ex else None
                if b is not None: return self.path_of(b, fr)
            if dk == 'global': return ('global', n.qname or n.name)
            if dk == 'param': return ('param', n.name)
            return ('local', n.decl)
        if k == 'member':
            if not n.field: return ('?', n.id)
            return self.path_of(n.n('base'), fr) + (n.name,)
        if k == 'cast': return self.path_of(n.n('sub'), fr)
        if k == 'unop':
            if n.op == '*': return self.path_of(n.n('sub'), fr) + ('*',) if not self._is_ptr_to_obj(n.n('sub')) else self.path_of(n.n('sub'), fr)
            if n.op == '&': return self.path_of(n.n('sub'), fr)
            return ('?', n.id)
        if k == 'subscript': return self.path_of(n.n('base'), fr) + ('*',)
        if k == 'cond':
            return ('?', n.id)
        if k == 'call':
            q = n.calleeq or ''
            base = q.split('::')[-1]
            args = n.ns('args')
            if q in TRANSPARENT_STD and args: return self.path_of(args[0], fr)
            if n.ck == 'op' and 'mclass' in n.d and args and not n.callee_in_root and n.op in ('*', '->', '[]'):
                return self.path_of(args[0], fr) + ('*',)
            if n.n('object') is not None and not n.callee_in_root and base in ELEMENT_OF:
                return self.path_of(n.n('object'), fr) + ('*',)
            if q == 'std::get' and args: return self.path_of(args[0], fr) + ('*',)
            if n.callee_in_root and (n.cat == 'l' or (n.type or '').endswith('*')):
                rp = self._ret_path(n, fr)
                if rp is not None: return rp
            if n.callee_in_root and n.n('object') is not None and (n.cat == 'l' or (n.type or '').endswith('*')):
                # a tulz method returning a reference / pointer: something owned by (reachable from) the object
                return self.path_of(n.n('object'), fr) + ('*',)
            return ('?', n.id)
        if k == 'new': return ('new', n.id)
        if k == 'construct': return ('tmp', n.id)
        return ('?', n.id)

    def field_info(self, n, fr):
        """(class, field, ftype) if expression n designates a field itself (through casts, &, *ptr, aliases), else None"""
        while n is not None:
            if n.k == 'member': return (n.d.get('classfull') or n.d.get('class'), n.name, n.ftype or '') if n.field else None
            if n.k == 'ref': return fr.ainfo.get(n.decl)
            if n.k == 'cast': n = n.n('sub'); continue
            if n.k == 'unop' and n.op == '&': n = n.n('sub'); continue
            if n.k == 'unop' and n.op == '*':
                s_ = n.n('sub')
                while s_ is not None and s_.k == 'cast': s_ = s_.n('sub')
                return fr.ainfo.get(s_.decl) if (s_ is not None and s_.k == 'ref') else None
            if n.k == 'call' and (n.calleeq or '') in TRANSPARENT_STD and n.ns('args'): n = n.ns('args')[0]; continue
            return None
        return None

    def closure_of(self, n, fr):
        """(lambda node, defining frame) if expression n is a lambda or a variable / parameter / capture holding one"""
        while n is not None:
            if n.k == 'lambda': return (n, fr)
            if n.k == 'ref': return fr.clos.get(n.decl)
            if n.k == 'cast': n = n.n('sub'); continue
            if n.k == 'call' and (n.calleeq or '') in TRANSPARENT_STD and n.ns('args'): n = n.ns('args')[0]; continue
            if n.k == 'construct' and (n.copy or n.move) and n.ns('args'): n = n.ns('args')[0]; continue
            return None
        return None

    def _ret_path(self, n, fr, depth=0):
        """what a tulz callee returning a pointer / reference designates, when all its non-null returns agree: the callee's
        reference / pointer locals are bound in declaration order and the returned expressions resolved in its frame"""
        if fr.depth + 1 > self.max_depth or getattr(self, '_rp_depth', 0) > 3: return None
        targets = self.facts.resolve(n)
        if len(targets) != 1 or targets[0].body is None: return None
        t = targets[0]
        obj = n.n('object'); args = n.ns('args')
        if n.ck == 'op' and 'mclass' in n.d:
            this_path = self.path_of(args[0], fr) if args else ('?',); args = args[1:]
        elif obj is not None: this_path = self.path_of(obj, fr)
        else: this_path = fr.this if (t.d.get('class') and t.d.get('class') == fr.fn.d.get('class')) else ('static',)
        self._rp_depth = getattr(self, '_rp_depth', 0) + 1
        try:
            sub = Frame(t, self._bind(t, args, fr, this_path), this_path, list(fr.chain) + [fr.fn.name], fr.depth + 1)
            paths = set()
            for x in t.body.walk():
                if x.k == 'decl':
                    for v in x.vars:
                        init = Node(x.tu, v['init']) if v.get('init') and v['init'] in x.tu.ex else None
                        if init is not None and (v.get('isref') or v.get('isptr') or _is_iter(v)):
                            p = self.path_of(init, sub)
                            if p and p[0] not in ('?', 'tmp'): sub.env[v['decl']] = p
                elif x.k == 'return' and x.n('sub') is not None:
                    r = x.n('sub')
                    while r.k == 'cast': r = r.n('sub')
                    if r.k == 'null': continue
                    paths.add(self.path_of(r, sub))
            if len(paths) == 1:
                p = next(iter(paths))
                if p and p[0] not in ('?', 'tmp', 'local', 'new'): return p
            return None
        finally:
            self._rp_depth -= 1

    def _is_ptr_to_obj(self, n):
        # `*p` where p is a raw pointer variable/field/this: the pointee is what the path of p already denotes
        return n is not None and n.k in ('ref', 'member', 'this', 'cast', 'new')

    # ---- driver -------------------------------------------------------------------------------------------------
    def modes_of(self, fn):
        key = (fn.sig, fn.loc)
        if key not in self._modes: self._modes[key] = compute_modes(fn)
        return self._modes[key]

    def run_root(self, fn, role, this=('this',), env=None, entry_locks=frozenset()):
        root = (role, fn.name)
        fr = Frame(fn, dict(env or {}), this, [], 0, ctor_obj=(this if fn.d.get('ctor') else None))
        return self._run(fr, frozenset(entry_locks), root)

    def _env_sig(self, fr):
        return (fr.this, tuple(sorted((k, v) for k, v in fr.env.items())))

    def _run(self, fr, entry_locks, root):
        fn = fr.fn
        cfg = fn.cfg
        if cfg is None: return entry_locks
        mkey = (fn.sig, fn.loc, entry_locks, self._env_sig(fr), root)
        if mkey in self._memo: return entry_locks
        self._memo.add(mkey)
        fr.modes = self.modes_of(fn)
        guardvars = {}
        IN = {}; OUT = {}
        order = cfg.rpo()
        # pass 1: must-lockset fixpoint (no recording, no inlining side effects: callee lock effects are balanced)
        changed = True; it = 0
        while changed and it < 60:
            changed = False; it += 1
            for bid in order:
                if bid == cfg.entry: inn = entry_locks
                else:
                    ps = [OUT[p] for p in cfg.preds[bid] if p in OUT]
                    if not ps: continue
                    inn = frozenset.intersection(*ps)
                out = self._transfer(fr, cfg.blocks[bid], inn, guardvars, root, record=False)
                if IN.get(bid) != inn or OUT.get(bid) != out:
                    IN[bid] = inn; OUT[bid] = out; changed = True
        # pass 2: record
        for bid in order:
            if bid in IN: self._transfer(fr, cfg.blocks[bid], IN[bid], guardvars, root, record=True)
        exit_locks = IN.get(cfg.exit, entry_locks)
        if exit_locks != entry_locks and cfg.exit in IN:
            self.unbalanced.append((fn, fn.shortloc(), f'entry {sorted(map(str, entry_locks))} exit {sorted(map(str, exit_locks))}'))
        return exit_locks

    def _lock_token(self, n, fr, mode):
        p = self.path_of(n, fr)
        m = n
        while m is not None and (m.k in ('cast',) or (m.k == 'unop' and m.op in ('*', '&'))): m = m.n('sub')       # `*m_ptr`: the lock object the pointer member designates
        if m is None: m = n
        cls = m.d.get('class') if m.k == 'member' else None
        name = m.d.get('name')
        ftype = m.d.get('ftype') or m.d.get('decltype') or m.d.get('type') or ''
        if m.k == 'ref' and m.decl in fr.ainfo:
            # a reference parameter / local bound to a lock member: the lock is that member
            cls, name, ftype = fr.ainfo[m.decl]
        ftype = (ftype or '').replace('const ', '').replace('*const', '').replace(' &', '').replace('&', '').replace('*', '').strip()
        return (p, cls or '', name or '', mode, ftype)

    def _transfer(self, fr, B, L, guardvars, root, record):
        L = set(L)
        self._guardvars_cur = guardvars
        for e in B.elems:
            if e.kind == 'autodtor':
                t = guardvars.get(e.info['decl'])
                if t is not None: L.discard(t)
                continue
            n = e.node
            if n is None: continue
            k = n.k
            if k == 'decl':
                for v in n.vars:
                    init = Node(n.tu, v['init']) if v.get('init') and v['init'] in n.tu.ex else None
                    if init is not None and init.k == 'construct':
                        cls = init.d['class']
                        if cls.startswith(MUTEX_GUARDS) or cls in RW_GUARDS:
                            args = [a for a in init.ns('args') if a is not None]
                            if args:
                                tok = self._lock_token(args[0], fr, guard_mode(cls))
                                guardvars[v['decl']] = tok
                                if record:
                                    for held in L:
                                        self.lock_order.add((held[1:3] + (held[4],), tok[1:3] + (tok[4],), n.shortloc()))
                                        if held[0] == tok[0] and held[2] == tok[2]: self.reacquire.append((tok, n.shortloc(), list(fr.chain) + [fr.fn.name]))
                                    self.events.append(('acquire', n, frozenset(L), root, list(fr.chain) + [fr.fn.name], tok))
                                L.add(tok)
                            continue
                    if init is not None:
                        c = self.closure_of(init, fr)
                        if c is not None: fr.clos[v['decl']] = c
                    # alias: reference-typed local (or single-assignment pointer) bound to a path
                    if init is not None and (v.get('isref') or v.get('isptr') or _is_iter(v)):
                        p = self.path_of(init, fr)
                        if p and p[0] not in ('?', 'tmp'):
                            fr.env[v['decl']] = p
                            fi = self.field_info(init, fr) if (v.get('isref') or (init.k == 'unop' and init.op == '&')) else None
                            if fi is not None: fr.ainfo[v['decl']] = fi
                    if v.get('bindings') and init is not None and v.get('isref'):
                        pass
                continue
            if k == 'member' and n.field:
                if record: self._record_access(n, fr, L, root)
                continue
            if k == 'ref' and n.decl in fr.ainfo:
                if record: self._record_alias_access(n, fr, L, root)
                continue
            if k == 'call':
                self._call(n, fr, L, root, record)
                continue
            if k == 'construct':
                self._construct(n, fr, L, root, record)
                continue
            if k == 'new':
                continue
        return frozenset(L)

    def _record_access(self, n, fr, L, root):
        mode = fr.modes.get(n.id, 'R')
        if mode == 'N': return
        p = self.path_of(n, fr)
        ctor_obj = fr.ctor_obj is not None and p[:len(fr.ctor_obj)] == fr.ctor_obj and len(p) == len(fr.ctor_obj) + 1
        self.accesses.append(Access(n.d.get('classfull') or n.d['class'], n.name, mode, p, frozenset(L), root, tuple(fr.chain) + (fr.fn.name,), n.shortloc(),
                                    fr.fn.name, ctor_obj, n, (n.ftype or '').startswith('std::atomic<')))

    def _record_alias_access(self, n, fr, L, root):
        mode = fr.modes.get(n.id, 'R')
        if mode == 'N': return
        cls, field, ftype = fr.ainfo[n.decl]
        p = fr.env.get(n.decl) or self.path_of(n, fr)
        ctor_obj = fr.ctor_obj is not None and p[:len(fr.ctor_obj)] == fr.ctor_obj and len(p) == len(fr.ctor_obj) + 1
        self.accesses.append(Access(cls, field, mode, p, frozenset(L), root, tuple(fr.chain) + (fr.fn.name,), n.shortloc(), fr.fn.name, ctor_obj, n, ftype.startswith('std::atomic<')))

    def _bind(self, callee, call_args, fr, this_path):
        env = Env()
        for p, a in zip(callee.d['params'], call_args):
            if a is None: continue
            c = self.closure_of(a, fr)
            if c is not None: env.clos[p['decl']] = c
            if p.get('isref') or p.get('isptr'):
                ap = self.path_of(a, fr)
                env[p['decl']] = ap
                fi = self.field_info(a, fr) if (p.get('isref') or (a.k == 'unop' and a.op == '&') or (a.k == 'ref' and a.decl in fr.ainfo)) else None
                if fi is not None and ap and ap[0] not in ('?', 'tmp'): env.ainfo[p['decl']] = fi
            else:
                env[p['decl']] = ('local', p['decl'])
        return env

    def _inline(self, callee, env, this_path, fr, L, root, site, ctor_obj=None):
        if fr.depth + 1 > self.max_depth:
            self.depth_cut.append((callee.name, site)); return
        # recursion cut: same function already on the chain with the same lockset
        if callee.name in fr.chain or callee.name == fr.fn.name and callee.name in fr.chain:
            return      # (indirect) recursion: the callee is already being analysed with this lockset further up the chain
        if callee.name == fr.fn.name and fr.chain.count(callee.name) >= 1:
            return
        sub = Frame(callee, env, this_path, list(fr.chain) + [fr.fn.name], fr.depth + 1, ctor_obj=ctor_obj)
        self._run(sub, frozenset(L), root)

    def _lambda_env(self, lam, fr):
        env = Env()
        for c in lam.captures or []:
            if 'decl' not in c: continue
            if c.get('initcapture'):
                init0 = Node(lam.tu, c['init']) if c.get('init') and c['init'] in lam.tu.ex else None
                cl = self.closure_of(init0, fr) if init0 is not None else None
                if cl is not None: env.clos[c['decl']] = cl
            elif c['decl'] in fr.clos: env.clos[c['decl']] = fr.clos[c['decl']]
            if not c.get('initcapture') and c['decl'] in fr.ainfo and (c['mode'] == 'ref' or (c.get('vartype') or '').endswith('*') or c.get('isref')):
                env.ainfo[c['decl']] = fr.ainfo[c['decl']]
            if c.get('initcapture'):
                # init-capture: new variable; if initialised from a pointer/reference path keep the alias
                init = Node(lam.tu, c['init']) if c.get('init') and c['init'] in lam.tu.ex else None
                env[c['decl']] = self.path_of(init, fr) if (init is not None and (c.get('isref') or (c.get('vartype') or '').endswith('*'))) else ('local', c['decl'])
                continue
            outer = fr.env.get(c['decl'])
            if c['mode'] == 'ref':
                env[c['decl']] = outer if outer is not None else (('param', c['var']) if c.get('dk') == 'param' else ('local', c['decl']))
            else:
                # by copy: pointers/references keep designating the same object, values become closure-local
                if (c.get('vartype') or '').endswith('*') or c.get('isref'):
                    env[c['decl']] = outer if outer is not None else ('cap', c['var'])
                else:
                    env[c['decl']] = ('local', c['decl'])
        return env

    def _call(self, n, fr, L, root, record):
        q = strip_targs(n.calleeq or '')
        base = q.split('::')[-1]
        obj = n.n('object')
        args = n.ns('args')
        # explicit mutex operations
        if q in ('std::mutex::lock', 'std::recursive_mutex::lock') and obj is not None:
            tok = self._lock_token(obj, fr, 'X')
            if record:
                self.events.append(('acquire', n, frozenset(L), root, list(fr.chain) + [fr.fn.name], tok))
                for held in L:
                    if held[0] == tok[0] and held[2] == tok[2]: self.reacquire.append((tok, n.shortloc(), list(fr.chain) + [fr.fn.name]))
            L.add(tok); return
        if q in ('std::mutex::unlock', 'std::recursive_mutex::unlock') and obj is not None:
            tok = self._lock_token(obj, fr, 'X')
            if record: self.events.append(('release', n, frozenset(L), root, list(fr.chain) + [fr.fn.name], tok))
            if tok not in L and record: self.unbalanced.append((fr.fn, n.shortloc(), f'unlock of {tok[2]} that is not held'))
            L.discard(tok); return
        if q in ('std::unique_lock::unlock', 'std::unique_lock::lock') and obj is not None:
            # explicit operations on a guard variable: release / re-acquire the mutex it guards
            gv = self._guardvars_cur.get(obj.decl) if obj.k == 'ref' else None
            if gv is not None:
                if q.endswith('unlock'): L.discard(gv)
                else: L.add(gv)
            return
        if not record: return
        chain = list(fr.chain) + [fr.fn.name]
        if q.startswith('std::condition_variable'):
            self.events.append((base, n, frozenset(L), root, chain, self._lock_token(obj, fr, 'cv') if obj is not None else None))
            if base.startswith('wait'):
                for a in args:
                    if a is not None and a.k == 'lambda':
                        lf = self.facts.lambda_fn(a)
                        if lf is not None:
                            self._inline(lf, self._lambda_env(a, fr), fr.this, fr, L, root, n.shortloc())
            return
        if q == 'std::invoke' and args and args[0] is not None:
            c = self.closure_of(args[0], fr)
            if c is not None:
                lf = self.facts.lambda_fn(c[0])
                if lf is not None:
                    env = self._lambda_env(c[0], c[1]); b = self._bind(lf, args[1:], fr, fr.this)
                    env.update(b); env.clos.update(b.clos); env.ainfo.update(b.ainfo)
                    self._inline(lf, env, c[1].this, fr, L, root, n.shortloc())
                return
            self.opaque_calls.append((n, frozenset(L), root, chain)); self.events.append(('opaque', n, frozenset(L), root, chain, None))
            return
        if q in STD_SYNC_ALGOS or (not n.callee_in_root and any(a is not None and a.k == 'lambda' for a in args)):
            # synchronous std algorithm: callbacks run here, with the current lockset
            for a in args:
                if a is not None and a.k == 'lambda':
                    lf = self.facts.lambda_fn(a)
                    if lf is not None:
                        env = self._lambda_env(a, fr)
                        # element parameters of predicates designate elements of the container argument
                        elem = None
                        if obj is not None: elem = self.path_of(obj, fr) + ('*',)
                        elif args and args[0] is not None and args[0].k != 'lambda': elem = self.path_of(args[0], fr) + ('*',)
                        if elem and elem[0] not in ('?',):
                            for p in lf.d['params']:
                                if p.get('isref'): env[p['decl']] = elem
                        self._inline(lf, env, fr.this, fr, L, root, n.shortloc())
            return
        if n.callee_in_root:
            if q in self.no_inline:
                self.events.append(('call', n, frozenset(L), root, chain, None)); return
            targets = self.facts.resolve(n)
            self.events.append(('call', n, frozenset(L), root, chain, None))
            for t in targets:
                if n.ck == 'op' and 'mclass' in n.d:
                    this_path = self.path_of(args[0], fr) if args else ('?',)
                    call_args = args[1:]
                elif obj is not None:
                    this_path = self.path_of(obj, fr); call_args = args
                    if n.arrow and obj.k not in ('this',): pass
                else:
                    this_path = fr.this if t.d.get('lambda') else ('static',); call_args = args
                if t.d.get('lambda'):
                    # direct call of a closure object: captures resolve in the defining frame
                    cl = self.closure_of(args[0], fr) if (n.ck == 'op' and args) else None
                    if cl is not None: lam, dfr = cl
                    else: lam, dfr = self._find_lambda_node(t, fr), fr
                    env = self._lambda_env(lam, dfr) if lam is not None else Env()
                    b = self._bind(t, call_args, fr, this_path)
                    env.update(b); env.clos.update(b.clos); env.ainfo.update(b.ainfo)
                    self._inline(t, env, dfr.this, fr, L, root, n.shortloc())
                else:
                    self._inline(t, self._bind(t, call_args, fr, this_path), this_path, fr, L, root, n.shortloc())
            return
        # opaque callable: std::function / function pointer / user functor
        if q.startswith('std::function') and n.op == '()' or (n.n('calleeexpr') is not None):
            self.opaque_calls.append((n, frozenset(L), root, chain))
            self.events.append(('opaque', n, frozenset(L), root, chain, None))
            return
        if n.ck == 'op' and n.op == '()' and not n.callee_in_root:
            self.opaque_calls.append((n, frozenset(L), root, chain))
            self.events.append(('opaque', n, frozenset(L), root, chain, None))
            return
        if q in ('std::make_unique', 'std::make_shared'):
            self._make(n, fr, L, root)
            return
        self.events.append(('extcall', n, frozenset(L), root, chain, None))

    def _find_lambda_node(self, lf, fr):
        for x in fr.fn.nodes():
            if x.k == 'lambda' and x.fnloc == lf.loc: return x
        return None

    def _make(self, n, fr, L, root):
        """std::make_unique<T>(args...) constructs T(args...): inline T's constructor when T is a tulz class"""
        targs = n.targs or []
        if not targs: return
        T = targs[0]
        args = n.ns('args')
        cands = [f for f in self.facts.fns if f.d.get('ctor') and (f.d.get('classfull') == T) and len(f.d['params']) == len(args) and not f.d.get('copy') and not f.d.get('move')]
        for t in cands[:1]:
            obj = ('new', n.id)
            self._inline(t, self._bind(t, args, fr, obj), obj, fr, L, root, n.shortloc(), ctor_obj=obj)

    def _construct(self, n, fr, L, root, record):
        cls = n.d.get('class') or ''
        if cls.startswith(MUTEX_GUARDS) or cls in RW_GUARDS: return    # handled at the DeclStmt
        if not record: return
        chain = list(fr.chain) + [fr.fn.name]
        if cls == 'std::thread':
            found = False
            for a in n.ns('args')[:1]:
                c = self.closure_of(a, fr) if a is not None else None
                if c is not None:
                    lf = self.facts.lambda_fn(c[0])
                    if lf is not None:
                        self.thread_roots.append((lf, self._lambda_env(c[0], c[1]), c[1].this, chain, c[0])); found = True
            if not found and not (n.copy or n.move) and n.ns('args'):
                self.unresolved_threads.append((n, chain))
            self.events.append(('thread', n, frozenset(L), root, chain, None))
            return
        targets = self.facts.resolve(n)
        if targets:
            obj = ('tmp', n.id)
            self.events.append(('construct', n, frozenset(L), root, chain, None))
            for t in targets[:1]:
                self._inline(t, self._bind(t, n.ns('args'), fr, obj), obj, fr, L, root, n.shortloc(), ctor_obj=obj)


def protecting(access):
    """lock tokens that protect the access: lock object path is a prefix of the accessed object's path"""
    obj = access.path[:-1]
    out = []
    for t in access.locks:
        lo = t[0][:-1]        # path of the object that owns the lock field
        if lo == obj: out.append((t[1], t[2], t[3], 'own', t[4]))
        elif len(lo) < len(obj) and obj[:len(lo)] == lo: out.append((t[1], t[2], t[3], 'anc', t[4]))
        elif len(lo) == 2 and lo[0] == 'this' and t[1] and isinstance(access.root[1], str) and strip_targs(access.root[1]).startswith(strip_targs(t[1]) + '::'):
            # a handle class nested in the class that owns the lock takes that lock through its back reference to the owner (`m_owner.m_lock`):
            # which owner that is, is the business of the flow rule (DR.3 / CR.2)
            out.append((t[1], t[2], t[3], 'own', t[4]))
    return out
