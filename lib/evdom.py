"""A6: event domain for the abstract path evaluator — ordered events on tracked objects, with the lock state.

Every path of a function (callees defined in tulz inlined) becomes a list of Ev records:
    kind: 'call'   (method / free function not defined in tulz; .name = qualified callee, .obj = field name or variable the call is on)
          'write'  (.obj = field name, .val = abstract value)
          'delete' (.val = abstract value deleted)   'new' (.name = allocated type)
          'wait' / 'notify_all' / 'notify_one' / 'thread' / 'run' (virtual call kept opaque) / 'opaque' (user callback)
          'acquire' / 'release' (.obj = mutex field)
          'return' / 'throw' / 'enter' / 'leave'
    .locks = frozenset of mutex field names held when the event happens
    .node  = AST node (site)
The rules scan these lists (typestate, ordering, must-pass-through on every path).
"""
import re
from symex import Domain, Exec, Lin, Enum, Unknown, Record, Ref, Closure, Sym, State, as_lin
from facts import Node, strip_targs

INTEGRAL = {'int', 'unsigned int', 'long', 'unsigned long', 'long long', 'unsigned long long', 'short', 'unsigned short', 'char', 'unsigned char', 'signed char'}
MUTEX_GUARDS = ('std::unique_lock', 'std::scoped_lock', 'std::lock_guard', 'std::shared_lock')
RW_GUARDS = {'tulz::rwp::ReadLock': 'R', 'tulz::rwp::WriteLock': 'W'}


class Ev:
    __slots__ = ('kind', 'name', 'obj', 'val', 'args', 'node', 'locks', 'depth', 'fn', 'tag', 'argobjs')

    def __init__(self, kind, node=None, name='', obj=None, val=None, args=None):
        self.kind = kind; self.node = node; self.name = name; self.obj = obj; self.val = val; self.args = args or []
        self.locks = frozenset(); self.depth = 0; self.fn = ''; self.tag = None; self.argobjs = []

    def __repr__(self):
        return f"<{self.kind} {self.name or ''} obj={self.obj} val={self.val} locks={sorted(self.locks)} @{self.node.shortloc() if self.node is not None else ''}>"

    @property
    def site(self): return self.node.shortloc() if self.node is not None else ''


class EvDomain(Domain):
    """Generic: records everything; rule-specific subclasses refine `decide`, `field_value`, opaque calls."""
    max_depth = 8
    loop_unroll = 1

    def __init__(self, oracle=None, opaque_q=(), fork_unknown=True):
        self.oracle = oracle or {}
        self.opaque_q = set(opaque_q)
        self.fork_unknown = fork_unknown
        self.consulted = set()

    # -- naming helpers ---------------------------------------------------------------------------------------------
    @staticmethod
    def obj_name(n):
        """name of the object an operation is applied to: field name, variable name, or rendered text"""
        if n is None: return None
        if n.k == 'member' and n.field: return n.name
        if n.k == 'ref': return n.name
        if n.k == 'cast': return EvDomain.obj_name(n.n('sub'))
        if n.k == 'unop' and n.op in ('*', '&'): return EvDomain.obj_name(n.n('sub'))
        if n.k == 'call' and n.ck == 'op' and n.op in ('*', '->') and n.ns('args'): return EvDomain.obj_name(n.ns('args')[0])
        if n.k == 'this': return 'this'
        if n.k == 'call' and (n.calleeq or '') in ('std::move', 'std::forward', 'std::as_const') and n.ns('args'): return EvDomain.obj_name(n.ns('args')[0])
        return n.text()[:40]

    def resolve_obj(self, ex, obj, st, fr):
        """field name the object expression designates (through reference aliases), else its spelled name"""
        if obj is None: return None
        try:
            loc = ex.loc_of(obj, st, fr)
        except Exception:
            loc = None
        if loc is not None and loc[0] == 'f' and loc[1]:
            last = loc[1][-1]
            if isinstance(last, str) and not last.startswith('@'): return last
        if loc is not None and loc[0] == 'l' and len(loc) == 3:
            nm = self.local_name(st, loc[2])
            if nm: return nm
        return self.obj_name(obj)

    @staticmethod
    def local_name(st, decl):
        """source name of the local variable with this declaration id (so that `__range1` / a reference alias reports the variable it designates)"""
        for k, node, payload in reversed(st.events):
            if k == 'decl' and node is not None and node.k == 'decl':
                for v in node.vars or []:
                    if v.get('decl') == decl: return v['name']
        return None

    def opaque(self, n):
        q = n.d.get('calleeq') or n.d.get('ctor') or ''
        if q in self.opaque_q: return True
        if (n.d.get('callee_def') or n.d.get('ctor_def') or '').startswith('witness/'): return True     # witness callables stand for user code
        if n.k == 'call' and n.virtual and not n.qualified: return True
        if n.k == 'construct' and ((n.d.get('class') or '') in RW_GUARDS): return True
        return False

    def tag_event(self, st, e):
        return None

    def ev(self, st, e, fr):
        e.depth = fr.depth; e.fn = fr.fn.name
        e.tag = self.tag_event(st, e)
        st.events.append(('ev', e.node, e))
        return e

    # -- hooks --------------------------------------------------------------------------------------------------------
    def atom(self, key):
        if key in self.oracle:
            self.consulted.add(key); return self.oracle[key]
        return None

    def decide(self, ex, cond, value, st, fr):
        return None

    def field_value(self, path, node):
        return None

    def init_field(self, path, node):
        v = self.field_value(path, node)
        if v is not None: return v
        ty = (node.d.get('ftype') or node.d.get('type') or '') if node is not None else ''
        if ty in INTEGRAL: return Lin.sym(str(path[-1]))
        return Sym('field:' + '.'.join(map(str, path[-2:])))

    def init_param(self, fn, p):
        return Sym('param:' + p['name'])

    def ext_call(self, ex, n, st, fr):
        k = n.k
        if k == 'construct':
            cls = n.d.get('class') or ''
            args = [x for x in n.ns('args') if x is not None]
            if cls.startswith(MUTEX_GUARDS) or cls in RW_GUARDS:
                self.ev(st, Ev('guard', n, name=cls, obj=self.resolve_obj(ex, args[0], st, fr) if args else None, val=RW_GUARDS.get(cls, 'R' if cls.startswith('std::shared_lock') else 'X')), fr)
                return Sym('guard')
            if cls == 'std::thread':
                vals = [ex._rvalue(a, st, fr) for a in args]
                self.ev(st, Ev('thread', n, name=cls, val=vals[0] if vals else None, args=vals), fr)
                return Sym('thread')
            vals = [ex._rvalue(a, st, fr) for a in args]
            if (n.copy or n.move) and vals:
                return vals[0]
            if cls.startswith('std::') and len(vals) == 1 and vals[0] is not None:
                return vals[0]      # converting constructor of a std type (iterator -> const_iterator, raw -> smart pointer): same entity
            self.ev(st, Ev('construct', n, name=cls, args=vals), fr)
            if cls.startswith(('std::unique_ptr', 'std::shared_ptr')) and not vals: return Lin.const(0)      # an empty smart pointer holds null
            return Sym(f'obj:{cls}@{n.line}')
        if k == 'new':
            init = n.n('init')
            v = None
            pl = [ex._value(p, st, fr) for p in n.ns('placement') if p is not None]
            if init is not None:
                if init.k == 'construct' and init.callee_in_root and not self.opaque(init):
                    pass
                v = ex._value(init, st, fr)
            self.ev(st, Ev('new', n, name=n.alloctype, val=v, args=pl), fr)
            return Sym(f'new:{n.alloctype}@{n.line}:{n.id}')
        if k == 'delete':
            v = ex._rvalue(n.n('sub'), st, fr)
            self.ev(st, Ev('delete', n, val=v, obj=self.obj_name(n.n('sub'))), fr)
            return None
        if k == 'pseudodtor':
            self.ev(st, Ev('dtor', n, obj=self.obj_name(n.n('base')), val=ex._value(n.n('base'), st, fr)), fr); return None
        if k == 'subscript':
            b = ex._value(n.n('base'), st, fr); i = ex._rvalue(n.n('idx'), st, fr)
            return Sym(f'elem({b},{i})')
        if k != 'call': return Unknown(k)
        q = strip_targs(n.calleeq or '')
        if n.id in getattr(self, '_algo', {}): q = self.algo_name(n)[0]
        if n.id in getattr(self, '_algo', {}) and q in ('std::any_of', 'std::all_of', 'std::none_of'):
            X, ret = self._algo[n.id]
            empty = self.container_empty(X)
            self.ev(st, Ev('call', n, name=q, obj=None), fr)
            if empty is True: return q != 'std::any_of'
            if empty is False and isinstance(ret, bool): return ret if q == 'std::any_of' else (ret if q == 'std::all_of' else (not ret))
            return Unknown((q, n.id))
        base = q.split('::')[-1]
        args = n.ns('args')
        obj = n.n('object')
        if obj is None and n.ck == 'op' and ('mclass' in n.d) and args: obj = args[0]; args = args[1:]
        on = self.resolve_obj(ex, obj, st, fr)
        vals = [ex._rvalue(a, st, fr) if a is not None else None for a in args]
        if n.virtual and not n.qualified:
            ov = ex._rvalue(obj, st, fr) if obj is not None else None
            self.ev(st, Ev('run' if base == 'run' else 'vcall', n, name=q, obj=on, val=ov, args=vals), fr)
            r = self.vcall_result(ex, n, q, base, on, ov, vals, st, fr)
            return r if r is not None else Sym(f'vcall:{base}@{n.line}')
        if q.startswith('std::condition_variable'):
            kind = 'wait' if base.startswith('wait') else base
            self.ev(st, Ev(kind, n, name=q, obj=on, args=vals, val=next((v for v in vals if isinstance(v, Closure)), None)), fr)
            return None
        if q in ('std::mutex::lock', 'std::mutex::unlock', 'std::unique_lock::lock', 'std::unique_lock::unlock'):
            self.ev(st, Ev('mutex.' + base, n, name=q, obj=on), fr); return None
        if q.startswith('std::function') and n.op == '()':
            held_ = ex.read(ex.loc_of(obj, st, fr), st, obj) if (obj is not None and obj.k in ('ref', 'member') and ex.loc_of(obj, st, fr) is not None) else None
            if isinstance(held_, Closure): return Sym('cb-result')          # its body has been run (sync_closures)
            self.ev(st, Ev('opaque', n, name=q, obj=on, args=vals), fr); return Sym('cb-result')
        if q.startswith('std::function') and base == 'operator=' and obj is not None and obj.k in ('ref', 'member') and vals:
            loc_ = ex.loc_of(obj, st, fr)
            if loc_ is not None:
                ex.write(loc_, vals[0] if isinstance(vals[0], Closure) else (Lin.const(0) if (isinstance(vals[0], Lin) and vals[0].is_const()) else Sym(f'fn@{n.id}')), st, n)
                return Ref(loc_)
        if q == 'std::swap' and len(args) == 2 and args[0] is not None and args[1] is not None:
            la = ex.loc_of(args[0], st, fr); lb = ex.loc_of(args[1], st, fr)
            e = self.ev(st, Ev('call', n, name=q, obj=None, args=vals), fr)
            e.argobjs = [self.resolve_obj(ex, a, st, fr) for a in args]
            if la is not None and lb is not None:
                va = ex.read(la, st, args[0]); vb = ex.read(lb, st, args[1])
                ex.write(la, vb, st, n); ex.write(lb, va, st, n)
            return None
        if q in ('std::invoke', 'std::apply', 'std::invoke_r') and args:
            if isinstance(vals[0], Closure): return Sym('cb-result')        # body already run (sync_closures)
            e = self.ev(st, Ev('opaque', n, name=q, obj=self.resolve_obj(ex, args[0], st, fr), val=vals[0], args=vals[1:]), fr)
            e.argobjs = [args[0]]
            return Sym('cb-result')
        if (n.n('calleeexpr') is not None or (n.ck == 'op' and n.op == '()' and (not n.callee_in_root or (n.callee_def or '').startswith('witness/')))) and not (n.calleeq or '').startswith('std::ranges::__'):
            cal = n.n('calleeexpr') if n.n('calleeexpr') is not None else obj
            on2 = self.resolve_obj(ex, cal, st, fr) if cal is not None else None
            raw = [ex._value(a, st, fr) if a is not None else None for a in args]
            self.ev(st, Ev('opaque', n, name=q or 'indirect', obj=on2, val=ex._rvalue(cal, st, fr) if cal is not None else None, args=vals), fr)
            # an opaque callable may write through every non-const lvalue reference it is handed
            params = n.params or []
            for i, rv in enumerate(raw):
                pt = params[i] if i < len(params) else ''
                if isinstance(rv, Ref) and pt.endswith('&') and not pt.endswith('&&') and not pt.startswith('const '):
                    ex.write(rv.loc, Sym(f'havoc@{n.line}:{n.id}:{i}'), st, n)
            r = self.opaque_result(ex, n, on2, vals, st, fr)
            return r if r is not None else Sym('cb-result')
        ov = None
        if obj is not None:
            ov = ex._value(obj, st, fr)
        e = self.ev(st, Ev('call', n, name=q, obj=on, val=ov, args=vals), fr)
        e.argobjs = [self.resolve_obj(ex, a, st, fr) if a is not None else None for a in args]
        if q in ('std::unique_ptr::reset', 'std::unique_ptr::release') and obj is not None:
            # the variable's value is what the smart pointer holds: reset(p) makes it p, reset() / release() null
            loc = ex.loc_of(obj, st, fr) if obj.k in ('ref', 'member') else None
            if loc is not None:
                held = ex.read(loc, st, obj)
                self._held_before = held            # for domains that model the deleter: what reset() / release() found in the pointer
                ex.write(loc, (vals[0] if (base == 'reset' and vals and vals[0] is not None) else Lin.const(0)), st, n)
                if base == 'release': return held
        r = self.call_result(ex, n, q, base, on, ov, vals, st, fr)
        return r

    def const_array(self, n, fr):
        """the elements of a local array of constants (enumerators / integers) named by `n`, from its initialiser; else None"""
        if n is None or n.k != 'ref' or n.dk != 'local': return None
        for dn in fr.fn.nodes():
            if dn.k != 'decl': continue
            for v in dn.vars:
                if v['decl'] != n.decl or not v.get('init') or v['init'] not in dn.tu.ex: continue
                if not ((v.get('ctype') or '').startswith(('const std::array<', 'std::array<')) or '[' in (v.get('ctype') or '')): return None
                out = []
                def leaves(x):
                    while x is not None and x.k in ('cast', 'paren', 'materialize', 'bindtemp') and x.n('sub') is not None: x = x.n('sub')
                    if x is None: return
                    if x.k in ('initlist', 'construct'):
                        for a in x.ns('args'): leaves(a)
                    else: out.append(x)
                leaves(Node(dn.tu, v['init']))
                vals = []
                for x in out:
                    if x.k == 'ref' and x.dk == 'enum': vals.append(Enum(x.qname or x.name))
                    elif x.k == 'int': vals.append(Lin.const(x.v))
                    else: return None
                return vals or None
        return None

    def compare(self, ex, op, l, r, n, st, fr):
        # positions in a constant array (std::find above): `it != arr.end()`
        if op in ('==', '!=') and isinstance(l, Sym) and isinstance(r, Sym):
            def split(s_):
                m = re.match(r'^(.*)\.(end|at\d+)$', s_.name)
                return m.groups() if m else (None, None)
            (xl, pl), (xr, pr) = split(l), split(r)
            if xl is not None and xl == xr:
                return (pl == pr) if op == '==' else (pl != pr)
        return None

    def vcall_result(self, ex, n, q, base, on, ov, vals, st, fr):
        return None

    def opaque_result(self, ex, n, on, vals, st, fr):
        return None

    def container_empty(self, X):
        """emptiness of container X as far as the rule's row says (True / False / None)"""
        return self.atom(f'{X}.empty')

    @staticmethod
    def algo_name(n):
        """(std name, arguments) of a standard algorithm call, the C++20 range form included: `std::ranges::for_each(c, f)` is a call of
        the function object std::ranges::__for_each_fn -> ('std::for_each', [c, f])"""
        q = strip_targs(n.calleeq or '')
        args = [a for a in n.ns('args') if a is not None]
        m = re.match(r'std::ranges::__(\w+?)_fn::operator\(\)$', q)
        if m: return 'std::' + m.group(1), args[1:]
        if q.startswith('std::ranges::'): return 'std::' + q[len('std::ranges::'):], args
        return q, args

    def algo_range(self, ex, args, st, fr):
        """name of the container a standard algorithm walks: from `X.begin()` or from the range argument itself"""
        if not args: return None
        v0 = fr.vals.get(args[0].id)
        if isinstance(v0, Sym) and v0.name.endswith('.begin'): return v0.name[:-6]
        a0 = args[0]
        while a0 is not None and a0.k == 'cast': a0 = a0.n('sub')
        if a0 is not None and ((a0.k == 'member' and a0.field) or a0.k == 'ref') and re.match(r'(const )?std::(__cxx11::)?(list|forward_list|vector|deque|set|map|unordered_map|unordered_set|multimap|multiset)<', (a0.type or a0.d.get('decltype') or a0.d.get('ftype') or '')):
            return self.resolve_obj(ex, a0, st, fr)
        return None

    def sync_closures(self, ex, n, st, fr):
        q = n.calleeq or ''
        qn, aargs = self.algo_name(n)
        if qn in ('std::any_of', 'std::all_of', 'std::none_of'):
            # the predicate is evaluated on a representative element of [X.begin(), X.end())
            args = aargs
            X = self.algo_range(ex, args, st, fr)
            clo = next((fr.vals.get(a.id) for a in args if isinstance(fr.vals.get(a.id), Closure)), None)
            if X is not None and clo is not None and clo.fn is not None:
                self._algo = getattr(self, '_algo', {})
                self._algo[n.id] = [X, None]
                if self.container_empty(X) is True: return []
                self.ev(st, Ev('anyof', n, name=qn, obj=X, val=clo), fr)
                return [(clo, [Sym(X + '.front')])]
        if q.startswith('std::function') and n.ck == 'op' and n.op == '()' and n.ns('args') and n.ns('args')[0] is not None:
            # a std::function object that was given a closure on this path (`m_task = [..]{..}; … m_task();`): the call runs that closure
            a0 = n.ns('args')[0]
            loc = ex.loc_of(a0, st, fr) if a0.k in ('ref', 'member') else None
            held = ex.read(loc, st, a0) if loc is not None else None
            if isinstance(held, Closure) and held.fn is not None:
                return [(held, [ex._value(a, st, fr) for a in n.ns('args')[1:] if a is not None])]
        if q.startswith('std::condition_variable::wait'):
            out = []
            for a in n.ns('args'):
                if a is None: continue
                v = fr.vals.get(a.id)
                if isinstance(v, Closure) and v.fn is not None: out.append((v, []))
            return out
        if strip_targs(q) == 'std::invoke':
            args = [a for a in n.ns('args') if a is not None]
            v0 = ex._rvalue(args[0], st, fr) if args else None
            if isinstance(v0, Closure) and v0.fn is not None:
                return [(v0, [ex._value(a, st, fr) for a in args[1:]])]
        if qn == 'std::for_each':
            # the callable is applied to every element of [first, last): one representative invocation on `X.front`
            args = aargs
            X = self.algo_range(ex, args, st, fr)
            clo = next((fr.vals.get(a.id) for a in args if isinstance(fr.vals.get(a.id), Closure)), None)
            if X is not None and clo is not None and clo.fn is not None:
                self.ev(st, Ev('foreach', n, name='std::for_each', obj=X, val=clo), fr)
                return [(clo, [Sym(X + '.front')])]
            if X is not None and args and (args[-1].type or '').replace('const ', '').startswith('std::default_delete'):
                # std::for_each(first, last, std::default_delete<T>()): one representative element, deleted
                self.ev(st, Ev('foreach', n, name=q, obj=X, val=None), fr)
                self.ev(st, Ev('delete', n, val=Sym(X + '.front'), obj=X, name='std::default_delete'), fr)
        return []

    def after_closure(self, ex, n, clo, ret, st):
        if n.id in getattr(self, '_algo', {}):
            self._algo[n.id][1] = ret; return None
        q = n.calleeq or ''
        if q.startswith('std::condition_variable::wait'):
            # wait(lock, pred) returns only when pred() returned true
            return ex.assume(ret, True, st)
        return None

    def call_result(self, ex, n, q, base, on, ov, vals, st, fr):
        """abstract result of an external call (containers / smart pointers modelled just enough to keep identities)"""
        if q in ('std::count_if', 'std::count', 'std::distance', 'std::ranges::count_if') and len(vals) >= 2 and isinstance(vals[0], Sym) and isinstance(vals[1], Sym) \
                and vals[0].name.endswith('.begin') and vals[1].name == vals[0].name[:-6] + '.end' and self.container_empty(vals[0].name[:-6]) is True:
            return Lin.const(0)          # nothing to count in a container the row says is empty
        qn_, aargs_ = self.algo_name(n)
        if qn_ == 'std::find' and len(aargs_) >= 2:
            # std::find over a local array of constants (`constexpr std::array modes {A, B, C}`): decided from the initialiser
            rng = aargs_[0]
            while rng is not None and rng.k in ('cast',): rng = rng.n('sub')
            if rng is not None and rng.k == 'call' and rng.callee_base() in ('begin', 'cbegin') and rng.n('object') is not None: rng = rng.n('object')
            elems = self.const_array(rng, fr)
            # (range, value[, projection]) or (first, last, value[, projection])
            vi = 1 if (aargs_[0].k == 'ref' and rng is aargs_[0]) or not (aargs_[0].k == 'call') else 2
            want = ex._rvalue(aargs_[vi], st, fr) if vi < len(aargs_) else None
            if elems is not None and isinstance(want, (Enum, Lin)) and all(type(x) is type(want) for x in elems):
                X = self.obj_name(rng)
                hit = next((i for i, x in enumerate(elems) if x == want), None)
                return Sym(f'{X}.end') if hit is None else Sym(f'{X}.at{hit}')
        if qn_ in ('std::count_if', 'std::count', 'std::distance') and qn_ != q:
            X_ = self.algo_range(ex, aargs_, st, fr)          # the range form: std::ranges::count_if(container, pred)
            if X_ is not None and self.container_empty(X_) is True: return Lin.const(0)
        if base in ('begin', 'cbegin'): return Sym(f'{on}.begin')
        if base in ('end', 'cend'): return Sym(f'{on}.end')
        if base in ('front',): return Sym(f'{on}.front')
        if base in ('back',): return Sym(f'{on}.back')
        if base in ('get', 'operator bool') and (n.mclass or '').startswith(('std::unique_ptr', 'std::shared_ptr')):
            if isinstance(ov, Ref): ov = ex.read(ov.loc, st, n)
            if ov is not None and not (isinstance(ov, Sym) and ov.name.startswith('field:')): return ov
        if base in ('get',) and on: return Sym(f'{on}.ptr')
        if base == 'operator*' or base == 'operator->':
            if isinstance(ov, Ref): ov = ex.read(ov.loc, st, n)
            if base == 'operator->' and (n.mclass or '').startswith(('std::unique_ptr', 'std::shared_ptr')) and ov is not None:
                return ov       # the raw pointer the smart pointer holds: same entity
            if isinstance(ov, Sym) and ov.name.endswith('.begin'): return Sym(ov.name[:-6] + '.front')
            if isinstance(ov, Sym): return Sym(ov.name + '.deref')
            return Sym(f'{on}.deref')
        if base in ('empty',):
            v = self.atom(f'{on}.empty')
            return v if v is not None else Unknown(f'{on}.empty')
        if base in ('size', 'length'): return Lin.sym(f'{on}.size')
        if base in ('operator==', 'operator!='):
            return Unknown(('cmp', base, repr(ov), repr(vals)))
        return Sym(f'ret:{base}@{n.line}')


def events_of(path):
    return [p for (k, _, p) in path.events if k == 'ev'] if False else [e for e in _flatten(path)]


def _flatten(path):
    """all events of a path in order, converting symex-native events (write / return / throw / autodtor / enter / leave)
    and computing the lock state"""
    held = {}          # guard decl id / name -> mutex name
    cur = set()
    guards_pending = None
    out = []
    last_guard_ev = None
    decls = {}         # local name -> (value at declaration, decl node): scoped smart pointers delete what they hold
    released = set()
    for k, node, payload in path.events:
        e = None
        if k == 'ev':
            e = payload
            if e.kind == 'call' and e.obj in decls and e.name.startswith('std::unique_ptr'):
                b = e.name.split('::')[-1]
                if b == 'release': released.add(e.obj)
                elif b == 'reset':
                    v0 = decls[e.obj][0]
                    null0 = (isinstance(v0, Lin) and v0.is_const() and v0.c == 0) or (isinstance(v0, int) and not isinstance(v0, bool) and v0 == 0) or e.obj in released
                    if not null0:        # reset() of an empty (or released) smart pointer deletes nothing
                        d0 = Ev('delete', e.node, val=v0, obj=e.obj, name='unique_ptr::reset'); d0.locks = frozenset(cur); d0.fn = e.fn; d0.tag = e.tag
                        out.append(d0)
                    decls[e.obj] = (e.args[0] if e.args else None, e.node); released.discard(e.obj)
            if e.kind == 'guard':
                last_guard_ev = e
                cur.add(e.obj); e2 = Ev('acquire', e.node, obj=e.obj, val=e.val); e2.locks = frozenset(cur); e2.fn = e.fn; e2.depth = e.depth
                out.append(e2); continue
            if e.kind == 'mutex.lock':
                m = held.get(e.obj, e.obj); cur.add(m)
                e2 = Ev('acquire', e.node, obj=m); e2.locks = frozenset(cur); e2.fn = e.fn; out.append(e2); continue
            if e.kind == 'mutex.unlock':
                m = held.get(e.obj, e.obj); cur.discard(m)
                e2 = Ev('release', e.node, obj=m); e2.locks = frozenset(cur); e2.fn = e.fn; out.append(e2); continue
        elif k == 'decl':
            name, val = payload
            decls[name] = (val, node)
            released.discard(name)          # a new variable of that name (another scope / iteration) owns what it is given
            d1 = Ev('decl', node, obj=name, val=val); d1.locks = frozenset(cur); out.append(d1)
            if last_guard_ev is not None and node is not None:
                # `std::scoped_lock locker(m)` : remember which variable guards which mutex
                for v in node.vars:
                    if v['name'] == name and v.get('init') == (last_guard_ev.node.id if last_guard_ev.node is not None else None):
                        held[v['decl']] = last_guard_ev.obj; held[name] = last_guard_ev.obj
                        last_guard_ev = None
            continue
        elif k == 'moved-from':
            released.add(payload); continue
        elif k == 'autodtor':
            name, decl, ty = payload
            if decl in held:
                m = held.pop(decl); held.pop(name, None)
                if m in cur:
                    cur.discard(m)
                    e = Ev('release', None, obj=m)
            elif (ty or '').startswith('std::unique_ptr') and name in decls and name not in released and decls[name][0] is not None:
                v0 = decls[name][0]
                if (isinstance(v0, Lin) and v0.is_const() and v0.c == 0) or (isinstance(v0, int) and not isinstance(v0, bool) and v0 == 0):
                    e = Ev('scope-dtor', None, obj=name, name=ty or '')        # an empty smart pointer deletes nothing
                else:
                    e = Ev('delete', decls[name][1], val=v0, obj=name, name='unique_ptr::~unique_ptr')
            else:
                e = Ev('scope-dtor', None, obj=name, name=ty or '')
        elif k == 'write':
            loc, val = payload
            nm = loc[1][-1] if loc[0] == 'f' else (str(loc[-1]))
            e = Ev('write', node, obj=nm, val=val); e.name = 'field' if loc[0] == 'f' else 'local'
            e.args = [loc]
        elif k == 'return':
            e = Ev('return', node, val=payload)
        elif k == 'throw':
            e = Ev('throw', node)
        elif k == 'branch':
            e = Ev('branch', node, val=payload[0], name=payload[1]); e.fn = payload[2]
        elif k in ('enter', 'leave'):
            e = Ev(k, node, name=payload)
        elif k == 'callee-throw':
            e = Ev('callee-throw', node, name=payload)
        if e is None: continue
        e.locks = frozenset(cur)
        out.append(e)
    return out


def run_paths(facts, fn, domain, args=None, this_path=('this',), keep_noreturn=False):
    ex = Exec(facts, domain)
    paths = ex.run(fn, args=args, this_path=this_path)
    # a path that ends in a call that does not return (a failed assert, abort()) is not behaviour to be judged: asserts are assumptions
    # the code states itself, and what such a path did before it stopped is not an outcome of the operation
    return [(p, _flatten(p)) for p in paths if keep_noreturn or p.end != 'noreturn']


CONTAINER_TESTS = ('empty', 'end', 'cend', 'begin', 'cbegin', 'size', 'rbegin', 'rend', 'crbegin', 'crend')


def loop_conds(facts, fn_names):
    """node ids of the conditions of every loop in the named functions (and the lambdas inside them)"""
    out = set()
    for f in facts.fns:
        if f.name not in fn_names and f.gname not in fn_names: continue
        for n in f.nodes():
            if n.k in ('while', 'for', 'do', 'rangefor') and n.n('c') is not None: out.add(n.n('c').id)
    return out


def loop_visits(E, conds):
    """[(index in E, container name)] for every loop iteration entered on this path: a `branch` event with value True on a loop
    condition; the container is the object of the nearest preceding emptiness / begin / end / size call (None if there is none)"""
    out = []; last = {}
    for i, e in enumerate(E):
        if e.kind != 'branch' or e.val is not True or e.node is None or e.node.id not in conds: continue
        cont = None
        for x in reversed(E[max(0, i - 8):i]):
            if x.kind == 'branch': break
            if x.kind == 'call' and x.obj is not None and x.name.split('::')[-1] in CONTAINER_TESTS:
                cont = x.obj; break
        if cont is None: cont = last.get(e.node.id)       # range-for: begin()/end() are evaluated once, before the first test
        last[e.node.id] = cont
        out.append((i, cont))
    return out
