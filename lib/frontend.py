"""Front end: scratch copy of /repo, clang-14 normalisation (fix-its), fact extraction.

Nothing here decides a property.  The output is a directory of JSON fact files, one per TU,
produced by tools/tulz-facts from the *current working tree* of /repo.  A content-addressed cache
(key = sha256 over every file under /repo/{include,src} + witness TUs + the shim + the extractor
binary) avoids re-running clang when several checks are run against the same tree; any edit to
/repo changes the key.
"""
import hashlib, json, os, shutil, subprocess, sys, tempfile, time, glob
from concurrent.futures import ThreadPoolExecutor

VERIF = os.path.dirname(os.path.dirname(os.path.abspath(__file__)))
REPO = os.environ.get('TULZ_REPO', '/repo')
TOOL = os.path.join(VERIF, 'tools', 'tulz-facts')
SHIM = os.path.join(VERIF, 'compat', 'p0960_shim.h')
WITNESS_DIR = os.path.join(VERIF, 'witness')
CACHE = os.path.join(VERIF, '.cache')
CLANG_FLAGS = ['-std=gnu++20', '-UNDEBUG', '-Wno-everything']


class AnalysisBroken(Exception):
    pass


def _tree_files(repo):
    out = []
    for sub in ('include', 'src'):
        for root, _, files in os.walk(os.path.join(repo, sub)):
            for f in files:
                out.append(os.path.join(root, f))
    return sorted(out)


def tree_key(repo=REPO, thorough=False):
    h = hashlib.sha256()
    h.update(b'thorough' if thorough else b'quick')
    for p in _tree_files(repo):
        h.update(os.path.relpath(p, repo).encode()); h.update(b'\0')
        with open(p, 'rb') as fh: h.update(fh.read())
        h.update(b'\0')
    for p in sorted(glob.glob(os.path.join(WITNESS_DIR, '*'))) + [SHIM, TOOL]:
        h.update(os.path.basename(p).encode())
        with open(p, 'rb') as fh: h.update(fh.read())
    return h.hexdigest()[:24]


def src_tus(repo=REPO):
    """Translation units of the library = what CMake builds on this platform (all src/**/*.cpp)."""
    out = []
    for root, _, files in os.walk(os.path.join(repo, 'src')):
        for f in files:
            if f.endswith('.cpp'):
                out.append(os.path.relpath(os.path.join(root, f), repo))
    return sorted(out)


def witness_tus(thorough=False):
    """w_*.cpp: core instantiation matrix (every tier); t_*.cpp: additional instantiations of the thorough tier"""
    pats = ['w_*.cpp'] + (['t_*.cpp'] if thorough else [])
    return sorted('witness/' + os.path.basename(p) for pat in pats for p in glob.glob(os.path.join(WITNESS_DIR, pat)))


def fact_name(tu):
    return tu.replace('/', '__') + '.json'


def _run(cmd, cwd, timeout=600):
    return subprocess.run(cmd, cwd=cwd, stdout=subprocess.PIPE, stderr=subprocess.STDOUT, text=True, timeout=timeout)


def extract(repo=REPO, use_cache=True, log=None, thorough=False):
    """Returns (facts_dir, info).  info: dict with tus, wall_s, cache_hit, fixits."""
    t0 = time.time()
    if not os.path.exists(TOOL):
        raise AnalysisBroken(f'extractor not built: {TOOL} (run setup.sh)')
    key = tree_key(repo, thorough)
    dest = os.path.join(CACHE, key)
    marker = os.path.join(dest, 'DONE.json')
    if use_cache and os.environ.get('VERIF_NO_CACHE') != '1' and os.path.exists(marker):
        info = json.load(open(marker)); info['cache_hit'] = True; info['wall_s'] = round(time.time() - t0, 2)
        return dest, info
    scratch = tempfile.mkdtemp(prefix='tulzverif-')
    try:
        tree = os.path.join(scratch, 't')
        os.makedirs(tree)
        for sub in ('include', 'src'):
            shutil.copytree(os.path.join(repo, sub), os.path.join(tree, sub))
        shutil.copytree(WITNESS_DIR, os.path.join(tree, 'witness'))
        shutil.copy(SHIM, os.path.join(tree, 'p0960_shim.h'))
        base = ['-Iinclude', '-Iwitness', '-include', 'p0960_shim.h'] + CLANG_FLAGS
        # 1. normalise for clang 14: apply its own fix-its (P0634 'typename') on the scratch copy only
        fixits = 0
        for _ in range(3):
            r = _run(['clang++', '-fsyntax-only', '-Xclang', '-fixit', '-Xclang', '-fix-what-you-can', '-ferror-limit=0',
                      '-fno-caret-diagnostics'] + base[:-1] + ['witness/w_all.cpp'], tree)
            n = r.stdout.count('FIX-IT applied')
            fixits += n
            if n == 0: break
        # 2. extract
        tus = src_tus(tree) + witness_tus(thorough)
        out = os.path.join(scratch, 'facts'); os.makedirs(out)

        def one(tu):
            o = os.path.join(out, fact_name(tu))
            cmd = [TOOL, tu, '--root', 'include/', '--root', 'src/', '--root', 'witness/', '--root', tree + '/', '-o', o, '--'] + base
            r = _run(cmd, tree)
            return tu, r.returncode, r.stdout[-2000:], os.path.exists(o)
        with ThreadPoolExecutor(max_workers=min(16, os.cpu_count() or 4)) as ex:
            results = list(ex.map(one, tus))
        broken = []
        for tu, rc, txt, ok in results:
            if not ok:
                broken.append(f'{tu}: extractor produced no output (rc={rc}) {txt[-400:]}')
        if broken:
            raise AnalysisBroken('; '.join(broken))
        # strip scratch prefix from all locations so that reports point into /repo
        pre = tree + '/'
        diags = []
        for tu in tus:
            p = os.path.join(out, fact_name(tu))
            s = open(p).read().replace(pre, '')
            open(p, 'w').write(s)
            d = json.loads(s)
            for dg in d.get('diagnostics', []):
                diags.append({'tu': tu, **dg})
        info = {'tus': tus, 'fixits': fixits, 'diagnostics': diags, 'key': key, 'cache_hit': False}
        os.makedirs(CACHE, exist_ok=True)
        json.dump(info, open(os.path.join(out, 'DONE.json'), 'w'))
        if os.path.exists(marker):
            pass                               # another process finished the same tree first
        else:
            tmpdest = dest + f'.{os.getpid()}.tmp'
            shutil.move(out, tmpdest)
            try:
                os.rename(tmpdest, dest)
            except OSError:
                shutil.rmtree(tmpdest, ignore_errors=True)
        # keep the cache small: retain the 12 most recent trees
        ents = []
        for e in os.listdir(CACHE):
            if '.' in e: continue                      # another process's tree under construction (key.pid): not ours to touch
            try: ents.append((os.path.getmtime(os.path.join(CACHE, e)), e))
            except OSError: pass                       # renamed / evicted by a concurrent run between listdir and stat
        ents.sort()
        for _, e in ents[:-int(os.environ.get('VERIF_CACHE_KEEP', '12'))]:
            shutil.rmtree(os.path.join(CACHE, e), ignore_errors=True)
        info['wall_s'] = round(time.time() - t0, 2)
        return dest, info
    finally:
        shutil.rmtree(scratch, ignore_errors=True)


if __name__ == '__main__':
    d, info = extract()
    print(d)
    print(json.dumps({k: v for k, v in info.items() if k != 'tus'}, indent=1)[:3000])
