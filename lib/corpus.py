"""Thorough tier: test the checker both ways on the committed corpus (seeded changes, one-edit mutants, genuine-defect
reverts, benign variants).  Each item is applied to a scratch copy of /repo's current include/ + src/ (never to /repo) and
the property's quick check is run against the copy.  A corpus item the check no longer reports, or a benign variant it
reports, makes the *checker* broken (exit 2) — it is not a statement about /repo."""
import glob, json, os, shutil, subprocess, tempfile
from concurrent.futures import ThreadPoolExecutor
VERIF = os.path.dirname(os.path.dirname(os.path.abspath(__file__)))
REPO = os.environ.get('TULZ_REPO', '/repo')
FIXPROPS = {'0001': ['C01', 'C02', 'C03'], '0002': ['C09'], '0003': ['C09'], '0004': ['C14'], '0005': ['C19'], '0006': ['C20'], '0007': ['C15', 'C20'], '0008': ['C08', 'C15'], '0009': ['C10'], '0010': ['C06']}
ACCEPT_INCONCLUSIVE = set(json.load(open(os.path.join(VERIF, 'selftest', 'accepted_inconclusive.json'))))      # re-designs the rules do not follow: 'not decided' is the honest verdict (reasons in that file)


_km = os.path.join(VERIF, 'selftest', 'known_misses.json')
KNOWN_MISSES = set(json.load(open(_km))) if os.path.exists(_km) else set()          # recorded limits of the rules: neither reported nor declined (DESIGN §23)


def items_for(prop):
    out = []
    for d in sorted(glob.glob(os.path.join(VERIF, 'seeded', '*'))):
        m = json.load(open(os.path.join(d, 'meta.json')))
        if m['property'] == prop: out.append(('seed:' + m['id'], os.path.join(d, 'patch.diff'), False, 'violation'))
    for f in sorted(glob.glob(os.path.join(VERIF, 'selftest', 'mutants', '*.diff'))):
        j = f[:-5] + '.json'
        exp = json.load(open(j))['expect'] if os.path.exists(j) else []
        if prop in exp: out.append(('mutant:' + os.path.basename(f)[:-5], f, False, 'violation'))
    for f in sorted(glob.glob(os.path.join(VERIF, 'triage', 'planned_fixes', '00*.patch'))):
        n = os.path.basename(f)[:4]
        if prop in FIXPROPS.get(n, []): out.append(('revert:D' + n[2:], f, True, 'violation'))
    for f in sorted(glob.glob(os.path.join(VERIF, 'selftest', 'benign', '*.diff'))):
        out.append(('benign:' + os.path.basename(f)[:-5], f, False, 'silent'))
    # behaviour-preserving refactorings written for this property: never a VIOLATION ('not decided' is allowed for re-designs)
    for f in sorted(glob.glob(os.path.join(VERIF, 'selftest', 'refactor', prop + 'r*.diff'))):
        out.append(('refactor:' + os.path.basename(f)[:-5], f, False, 'no-violation'))
    return out


def _run(prop, item):
    name, patch, reverse, expect = item
    tmp = tempfile.mkdtemp(prefix='tulzself-')
    try:
        for sub in ('include', 'src'): shutil.copytree(os.path.join(REPO, sub), os.path.join(tmp, sub))
        r = subprocess.run(['patch', '-p1', '-s', '--no-backup-if-mismatch'] + (['-R'] if reverse else []) + ['-i', patch], cwd=tmp, stdout=subprocess.PIPE, stderr=subprocess.STDOUT, text=True)
        if r.returncode: return name, expect, 'not-applicable', 'patch does not apply to the current tree'
        env = dict(os.environ, TULZ_REPO=tmp, VERIF_EVIDENCE_DIR=os.path.join(tmp, 'ev'), VERIF_CACHE_KEEP='400', VERIF_TIER='quick')
        rr = subprocess.run([os.path.join(VERIF, 'check'), prop, '--tier', 'quick'], cwd=VERIF, env=env, stdout=subprocess.PIPE, stderr=subprocess.STDOUT, text=True)
        verdict = {0: 'silent', 1: 'violation', 2: 'inconclusive'}.get(rr.returncode, f'rc{rr.returncode}')
        first = next((l.strip() for l in rr.stdout.split('\n') if l.startswith('  ')), '')
        crash = next((l.strip() for l in rr.stdout.split('\n') if 'anchor=internal' in l), '')
        if crash: first = crash
        return name, expect, verdict, first[:240]
    finally:
        shutil.rmtree(tmp, ignore_errors=True)


def selftest(prop, rep):
    items = items_for(prop)
    rep.rule('SELF', 'checker self-test (thorough tier): every corpus change tagged with this property is reported, every benign variant leaves the check silent, no behaviour-preserving refactoring raises a violation')
    if not items: return
    with ThreadPoolExecutor(max_workers=min(12, os.cpu_count() or 4)) as ex:
        results = list(ex.map(lambda it: _run(prop, it), items))
    summary = []
    for name, expect, verdict, first in results:
        summary.append(dict(item=name, expect=expect, verdict=verdict, first=first))
        if verdict == 'not-applicable':
            rep.note(f'self-test item {name} skipped: {first}'); continue
        if 'anchor=internal' in first: rep.anchor_missing(f'selftest:{name}', 'the checker crashed: ' + first[:160]); continue
        ok = verdict == expect or (name in ACCEPT_INCONCLUSIVE and verdict == 'inconclusive') or (expect == 'no-violation' and verdict in ('silent', 'inconclusive'))
        if not ok and name in KNOWN_MISSES:
            rep.note(f'self-test item {name}: {verdict} — a recorded limit of the rules (selftest/known_misses.json)'); continue
        if ok: rep.ok('SELF', f'{name}: {verdict}' + (f' — {first[:120]}' if expect == 'violation' else ''), 'selftest', nontrivial=True)
        else: rep.anchor_missing(f'selftest:{name}', f'expected {expect}, the check says {verdict}: {first[:160]}')
    rep.counts['corpus_items'] = len(results)
    rep.notes.append('corpus: ' + json.dumps(summary)[:6000])
