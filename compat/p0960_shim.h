// clang-14 polyfill for C++20 P0960 (parenthesised aggregate init) as used through std::construct_at
#include <type_traits>
#include <utility>
#include <new>
namespace std {
template<class T, class... A>
  requires (std::is_aggregate_v<T> && !std::is_constructible_v<T, A...>)
constexpr T* construct_at(T* p, A&&... a) { return ::new((void*)p) T{std::forward<A>(a)...}; }
}
