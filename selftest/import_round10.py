#!/usr/bin/env python3
"""one-off: import the confirmed round-10 material from /tmp/seed10 (r1..r4 -> selftest/refactor/Cxxr18..r21)"""
import json, os, shutil
ROOT = '/tmp/seed10'; V = '/verif'
REJECT_R = {}
KIND = {'r1': 'code motion / renames', 'r2': 'diagnostics (asserts, attributes, debug output)', 'r3': 'defensive code that changes nothing', 'r4': 'style'}
rep = []
for i in range(1, 21):
    cid = f'C{i:02d}'
    for x, suf in (('r1', 'r18'), ('r2', 'r19'), ('r3', 'r20'), ('r4', 'r21')):
        o = f'{ROOT}/{cid}/out/{x}'; cj = f'{o}/confirm.json'
        if (cid, x) in REJECT_R: rep.append((cid, x, 'REJECTED: ' + REJECT_R[(cid, x)])); continue
        if not os.path.exists(cj): rep.append((cid, x, 'no confirm.json')); continue
        c = json.load(open(cj))
        if not c.get('ok'): rep.append((cid, x, f'NOT CONFIRMED {c}')); continue
        shutil.copy(f'{o}/patch.diff', f'{V}/selftest/refactor/{cid}{suf}.diff')
        notes = open(f'{o}/NOTES.md').read() if os.path.exists(f'{o}/NOTES.md') else ''
        json.dump(dict(id=f'{cid}{suf}', written_for=cid, kind=f'behaviour-preserving maintenance commit (sub-agent, tenth round: {KIND[x]})', summary=' '.join(notes.split())[:700],
                       confirmed=dict(build_rc=c['build_rc'], ctest_rc=c['ctest_rc'])), open(f'{V}/selftest/refactor/{cid}{suf}.json', 'w'), indent=1)
        rep.append((cid, x, f'imported as refactor:{cid}{suf}'))
for r in rep: print(*r)
