#!/usr/bin/env python3
"""run_corpus.py [--only substr] [--props C01,C02] : evaluate every claimed check against the corpus
   seeded/<id>/patch.diff       sub-agent changes that break a property (must be reported by that property's check)
   selftest/mutants/*.diff      one-edit mutants written while building the rules
   selftest/benign/*.diff       behaviour-preserving variants (every check must stay silent)
   triage/planned_fixes/*.patch reverse-applied: the original genuine defects D01-D10
Each item is applied to a scratch copy of /repo's include/ + src/ (never to /repo), TULZ_REPO points the checks at it.
Writes selftest/RESULTS.json and prints a table."""
import json, os, subprocess, sys, tempfile, shutil, glob, re
from concurrent.futures import ThreadPoolExecutor
V = os.path.dirname(os.path.dirname(os.path.abspath(__file__)))
claimed = [c['property_id'] for c in json.load(open(os.path.join(V, 'MANIFEST.json')))['checks']]
args = sys.argv[1:]
only = args[args.index('--only') + 1] if '--only' in args else None
props = args[args.index('--props') + 1].split(',') if '--props' in args else claimed
FIXPROPS = {'0001': ['C01', 'C02', 'C03'], '0002': ['C09'], '0003': ['C09'], '0004': ['C14'], '0005': ['C19'], '0006': ['C20'], '0007': ['C15', 'C20'], '0008': ['C08', 'C15'], '0009': ['C10'], '0010': ['C06']}
items = []
for d in sorted(glob.glob(os.path.join(V, 'seeded', '*'))):
    m = json.load(open(os.path.join(d, 'meta.json')))
    items.append(dict(name='seed:' + m['id'], patch=os.path.join(d, 'patch.diff'), reverse=False, kind='seeded', expect=[m['property']]))
for f in sorted(glob.glob(os.path.join(V, 'selftest', 'mutants', '*.diff'))):
    exp = json.load(open(f[:-5] + '.json'))['expect'] if os.path.exists(f[:-5] + '.json') else []
    items.append(dict(name='mutant:' + os.path.basename(f)[:-5], patch=f, reverse=False, kind='mutant', expect=exp))
for f in sorted(glob.glob(os.path.join(V, 'selftest', 'benign', '*.diff'))):
    items.append(dict(name='benign:' + os.path.basename(f)[:-5], patch=f, reverse=False, kind='benign', expect=[]))
for f in sorted(glob.glob(os.path.join(V, 'selftest', 'refactor', '*.diff'))):
    items.append(dict(name='refactor:' + os.path.basename(f)[:-5], patch=f, reverse=False, kind='refactor', expect=[]))
for f in sorted(glob.glob(os.path.join(V, 'triage', 'planned_fixes', '00*.patch'))):
    n = os.path.basename(f)[:4]
    items.append(dict(name='revert:D' + n[2:], patch=f, reverse=True, kind='revert', expect=FIXPROPS[n]))
if '--round2' in args:
    root = args[args.index('--round2') + 1]
    items = []
    for d in sorted(glob.glob(os.path.join(root, 'C*'))):
        pid = os.path.basename(d)
        for x in ('r1', 'r2', 'r3', 'r4'):
            pth = os.path.join(d, 'out', x, 'patch.diff')
            if os.path.exists(pth): items.append(dict(name=f'refactor:{pid}{x}', patch=pth, reverse=False, kind='benign', expect=[]))
        for x in ('b1', 'b2'):
            pth = os.path.join(d, 'out', x, 'patch.diff')
            if os.path.exists(pth): items.append(dict(name=f'seed2:{pid}{x}', patch=pth, reverse=False, kind='seeded', expect=[pid]))
if only: items = [i for i in items if only in i['name']]

def run_item(it):
    tmp = tempfile.mkdtemp(prefix='tulzcorpus-')
    try:
        for sub in ('include', 'src'): shutil.copytree(os.path.join('/repo', sub), os.path.join(tmp, sub))
        r = subprocess.run(['patch', '-p1', '-s', '--no-backup-if-mismatch'] + (['-R'] if it['reverse'] else []) + ['-i', it['patch']], cwd=tmp, stdout=subprocess.PIPE, stderr=subprocess.STDOUT, text=True)
        if r.returncode: return dict(it, error='patch failed: ' + r.stdout[-300:], results={})
        # still compiles with the repository's compiler?
        comp = subprocess.run('for f in $(find src -name "*.cpp"); do g++ -std=gnu++20 -fsyntax-only -Iinclude $f || exit 1; done', shell=True, cwd=tmp, stdout=subprocess.PIPE, stderr=subprocess.STDOUT, text=True)
        env = dict(os.environ, TULZ_REPO=tmp, VERIF_EVIDENCE_DIR=os.path.join(tmp, 'ev'), VERIF_CACHE_KEEP='400')
        res = {}
        for p in props:
            rr = subprocess.run([os.path.join(V, 'check'), p], cwd=V, env=env, stdout=subprocess.PIPE, stderr=subprocess.STDOUT, text=True)
            lines = rr.stdout.strip().split('\n')
            first = next((l.strip() for l in lines if l.startswith('  ')), '')
            verdict = {0: 'silent', 1: 'VIOLATION', 2: 'inconclusive'}.get(rr.returncode, f'rc{rr.returncode}')
            if rr.returncode == 2:
                first = next((l for l in lines if 'anchor=internal' in l), '') or next((l for l in lines if l.startswith(('ANALYSIS-BROKEN', 'INCONCLUSIVE'))), '')
            res[p] = dict(verdict=verdict, first=first[:300])
        return dict(it, compiles=comp.returncode == 0, results=res)
    finally:
        shutil.rmtree(tmp, ignore_errors=True)

with ThreadPoolExecutor(max_workers=int(os.environ.get('CORPUS_JOBS', '12'))) as ex:
    out = list(ex.map(run_item, items))
summary = []
bad = 0
for o in out:
    if o.get('error'):
        print(f"{o['name']:45s} ERROR {o['error'][:100]}"); bad += 1; continue
    viol = sorted(p for p, r in o['results'].items() if r['verdict'] == 'VIOLATION')
    inc = sorted(p for p, r in o['results'].items() if r['verdict'] == 'inconclusive')
    ACC = set(json.load(open(os.path.join(V, 'selftest', 'accepted_inconclusive.json'))))
    KM = set(json.load(open(os.path.join(V, 'selftest', 'known_misses.json')))) if os.path.exists(os.path.join(V, 'selftest', 'known_misses.json')) else set()
    known_miss = False
    if o['kind'] == 'benign':
        ok = not viol and not inc
    elif o['kind'] == 'refactor':
        ok = not viol            # 'not decided' is allowed for re-designs; a VIOLATION on behaviour-preserving code never
    elif o['name'] in KM and not all(p in viol or p in inc for p in o['expect'] if p in props):
        ok = True; known_miss = True          # a recorded limit of the rules (selftest/known_misses.json, DESIGN §23): neither reported nor undecided
    elif o['name'] in ACC:
        ok = all((p in viol or p in inc) for p in o['expect'] if p in props)
    else:
        ok = all(p in viol for p in o['expect'] if p in props) if o['expect'] else bool(viol)
    if any('anchor=internal' in (r.get('first') or '') for r in o['results'].values()): ok = False      # a crash of the checker is never an acceptable verdict
    status = 'miss' if known_miss else 'ok  ' if ok else 'MISS' if o['kind'] not in ('benign', 'refactor') else 'FALSE-ALARM'
    if not ok: bad += 1
    print(f"{status} {o['name']:45s} compiles={o.get('compiles')} expect={','.join(o['expect']) or '-':12s} VIOLATION={','.join(viol) or '-'} inconclusive={','.join(inc) or '-'}")
    summary.append(dict(name=o['name'], kind=o['kind'], expect=o['expect'], compiles=o.get('compiles'), violation=viol, inconclusive=inc, ok=ok, known_miss=known_miss,
                        detail={p: r['first'] for p, r in o['results'].items() if r['verdict'] != 'silent'}))
if only and '--merge' in args and '--props' not in args and '--round2' not in args:
    # add / replace the items just evaluated in the stored result of the last full run
    rp = os.path.join(V, 'selftest', 'RESULTS.json')
    old_ = json.load(open(rp))
    byname = {i['name']: i for i in old_['items']}
    for i in summary: byname[i['name']] = i
    order = [i['name'] for i in items] if False else None
    json.dump(dict(claimed=claimed, items=sorted(byname.values(), key=lambda i: ({'seeded': 0, 'mutant': 1, 'benign': 2, 'refactor': 3, 'revert': 4}.get(i['kind'], 9), i['name']))), open(rp, 'w'), indent=1)
    print(f'merged {len(summary)} item(s) into RESULTS.json ({len(byname)} items)')
if not only and '--props' not in args:
    json.dump(dict(claimed=claimed, items=summary), open(os.path.join(V, 'selftest', 'RESULTS_round2.json' if '--round2' in args else 'RESULTS.json'), 'w'), indent=1)
print(f'{len(out)} items, {bad} not as expected')
sys.exit(1 if bad else 0)
