#!/bin/bash
export SEEDROOT=${SEEDROOT:-/tmp/seed7}
cd ${SEEDROOT:-/tmp/seed7}
CM="-G Ninja -DCMAKE_BUILD_TYPE=RelWithDebInfo -DCMAKE_CXX_FLAGS=-Wno-error -DFETCHCONTENT_SOURCE_DIR_GOOGLETEST=/usr/src/googletest -DFETCHCONTENT_FULLY_DISCONNECTED=ON"
if [ ! -f base/_b/libtulz.a ]; then cmake -S base -B base/_b $CM > base/build.log 2>&1 && cmake --build base/_b -j12 >> base/build.log 2>&1; fi
ls -la base/_b/libtulz.a || exit 1
one() { id=$1; for x in b1 b2; do /verif/selftest/confirm_seed.sh $id $x; done; for x in r1 r2; do /verif/selftest/confirm_refactor.sh $id $x; done; }
export -f one
printf 'C%02d\n' $(seq 1 20) | xargs -P4 -I{} bash -c 'one {}' > ${SEEDROOT:-/tmp/seed7}/confirm.log 2>&1
echo done >> ${SEEDROOT:-/tmp/seed7}/confirm.log
