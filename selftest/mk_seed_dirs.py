#!/usr/bin/env python3
"""mk_seed_dirs.py <root>: one directory per property under <root> with property.txt (the text of the property: statement,
quantifier, why tests cannot settle it, anchor files) and a detached git worktree of /repo at HEAD in wt/ (remove them later with
`git -C /repo worktree remove --force <root>/Cxx/wt`).  Nothing from /verif is given to the sub-agents."""
import json, os, subprocess, sys
root = sys.argv[1]
for l in open('/verif/properties.jsonl'):
    d = json.loads(l); cid = d['id']
    os.makedirs(f'{root}/{cid}/out', exist_ok=True)
    a = d.get('anchors', {})
    txt = f"Property {cid}: {d['title']}\n\nStatement:\n{d['statement']}\n\nQuantified over: {d['quantifier']['text']}\n\nWhy the existing tests cannot settle it:\n{d['why_tests_cant']}\n\nWhere it lives (files): {', '.join(a.get('files', []))}\n"
    for k in ('state', 'mechanism'):
        for it in a.get(k, []) or []:
            txt += f"  {k}: {it.get('name')} — {it.get('meaning', '')} ({it.get('where', '')})\n"
    open(f'{root}/{cid}/property.txt', 'w').write(txt)
    if not os.path.exists(f'{root}/{cid}/wt'):
        subprocess.run(['git', '-C', '/repo', 'worktree', 'add', '-q', '--detach', f'{root}/{cid}/wt', 'HEAD'], check=True)
print('ok')
