#!/bin/bash
# rt.sh <item e.g. C07r1> <prop> [args]: run one check on a scratch tree under /tmp/rt (development aid)
t=/tmp/rt/$1; shift
TULZ_REPO=$t VERIF_EVIDENCE_DIR=$t/ev VERIF_CACHE_KEEP=400 /verif/check "$@"
