#!/bin/bash
# confirm_seed.sh <Cxx> <a|b>: confirm one seeded change in its scratch worktree:
#   patched tree builds, ctest 11/11, demo FAILS with the patch; demo PASSES on the unpatched tree.
# Writes /tmp/seed/<Cxx>/out/<x>/confirm.json
ROOT=${SEEDROOT:-/tmp/seed}; ID=$1; X=$2; S=$ROOT/$ID; WT=$S/wt; O=$S/out/$X; BASE=$ROOT/base
CM="-G Ninja -DCMAKE_BUILD_TYPE=RelWithDebInfo -DCMAKE_CXX_FLAGS=-Wno-error -DFETCHCONTENT_SOURCE_DIR_GOOGLETEST=/usr/src/googletest -DFETCHCONTENT_FULLY_DISCONNECTED=ON"
cd $WT || exit 2
git checkout -q -- . ; git clean -fdq -e _b
git apply $O/patch.diff || { echo "{\"id\":\"$ID/$X\",\"ok\":false,\"why\":\"patch does not apply\"}" > $O/confirm.json; exit 1; }
cmake -S . -B _b $CM > $O/build.log 2>&1 && cmake --build _b -j6 >> $O/build.log 2>&1
BUILD=$?
CT=1; if [ $BUILD = 0 ]; then ctest --test-dir _b -j4 --timeout 300 > $O/ctest.log 2>&1; CT=$?; if [ $CT != 0 ]; then ctest --test-dir _b --timeout 300 > $O/ctest.log 2>&1; CT=$?; fi; fi
demo_cmd() { # $1 = tree root, $2 = lib dir, $3 = output
  if [ "$ID" = C15 ] && [ "$X" = a ]; then echo "g++ -std=gnu++20 -O1 -g -fsanitize=thread -I$1/include $O/demo.cpp $1/src/threading/ThreadPool.cpp $1/src/threading/Thread.cpp $1/src/threading/Runnable.cpp -pthread -o $3";
  elif [ "$ID" = C15 ] && [ "$X" = b ]; then echo "g++ -std=gnu++20 -O1 -g -fsanitize=thread -I$1/include $O/demo.cpp $1/src/observer/routing/*.cpp $1/src/threading/rwp/Resource.cpp -pthread -o $3";
  elif grep -q "fsanitize=thread" $O/NOTES.md 2>/dev/null; then echo "g++ -std=gnu++20 -O1 -g -fsanitize=thread -I$1/include $O/demo.cpp $(find $1/src -name '*.cpp' | grep -v DynamicLibrary | tr '\n' ' ') -pthread -o $3";
  elif grep -q "fsanitize=address" $O/NOTES.md 2>/dev/null && grep -qi "requires\|needs\|only.*asan\|under asan" $O/NOTES.md; then echo "g++ -std=gnu++20 -O1 -g -fsanitize=address -I$1/include $O/demo.cpp $(find $1/src -name '*.cpp' | grep -v DynamicLibrary | tr '\n' ' ') -pthread -o $3";
  else echo "g++ -std=gnu++20 -O1 -g -I$1/include $O/demo.cpp $2/libtulz.a -pthread -o $3"; fi; }
WITH=0; WITHRC=""
if [ $BUILD = 0 ]; then
  $(demo_cmd $WT $WT/_b $O/demo_with) > $O/demo_build_with.log 2>&1
  if [ -x $O/demo_with ]; then
  for i in 1 2 3; do timeout 300 $O/demo_with > $O/demo_with.out 2>&1; rc=$?; WITHRC="$WITHRC $rc"; if [ $rc != 0 ]; then WITH=1; break; fi; done
  else WITHRC="demo-compile-failed"; fi
fi
git checkout -q -- . ; git clean -fdq -e _b
$(demo_cmd $BASE $BASE/_b $O/demo_without) > $O/demo_build_without.log 2>&1
WITHOUT=1; WORC=""
if [ -x $O/demo_without ]; then
for i in 1 2; do timeout 400 $O/demo_without > $O/demo_without.out 2>&1; rc=$?; WORC="$WORC $rc"; if [ $rc != 0 ]; then WITHOUT=0; fi; done
else WITHOUT=0; WORC="demo-compile-failed"; fi
rm -rf $WT/_b $O/demo_with $O/demo_without
OK=false; if [ $BUILD = 0 ] && [ $CT = 0 ] && [ $WITH = 1 ] && [ $WITHOUT = 1 ]; then OK=true; fi
echo "{\"id\":\"$ID/$X\",\"ok\":$OK,\"build_rc\":$BUILD,\"ctest_rc\":$CT,\"demo_with_patch_rcs\":\"$WITHRC\",\"demo_without_patch_rcs\":\"$WORC\"}" > $O/confirm.json
cat $O/confirm.json
