#!/bin/bash
export SEEDROOT=/tmp/seed2
/verif/selftest/confirm_refactor.sh $1 r1; /verif/selftest/confirm_refactor.sh $1 r2
/verif/selftest/confirm_seed.sh $1 b1; /verif/selftest/confirm_seed.sh $1 b2
