#!/bin/bash
# confirm the round-10 refactorings (r1..r4 per property): patched tree builds, ctest 11/11
export SEEDROOT=${SEEDROOT:-/tmp/seed10}
cd $SEEDROOT
one() { id=$1; for x in r1 r2 r3 r4; do /verif/selftest/confirm_refactor.sh $id $x; done; }
export -f one
printf 'C%02d\n' $(seq 1 20) | xargs -P4 -I{} bash -c 'one {}' > $SEEDROOT/confirm.log 2>&1
echo done >> $SEEDROOT/confirm.log
