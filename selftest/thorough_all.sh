#!/bin/bash
# run the thorough tier of all twenty checks (used with `vp run` on a snapshot); evidence goes to a scratch directory of the snapshot
cd "$(dirname "$0")/.." || exit 2
./setup.sh > /dev/null 2>&1
for i in $(seq -w 1 20); do
  VERIF_EVIDENCE_DIR=$PWD/evidence_thorough ./check C$i --tier thorough > thor_C$i.log 2>&1
  echo "C$i rc=$?"
done
echo DONE
