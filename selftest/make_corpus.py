#!/usr/bin/env python3
"""(Re)generates selftest/mutants/*.diff and selftest/benign/*.diff from textual edits against /repo HEAD.
Every variant must still compile with the repository's compiler (checked here).  Mutants carry the properties whose check
must report them; benign variants must leave every check silent.  Nothing here touches /repo: edits are made in a scratch copy."""
import json, os, shutil, subprocess, sys, tempfile
V = os.path.dirname(os.path.dirname(os.path.abspath(__file__)))
RES = 'src/threading/rwp/Resource.cpp'; TP = 'src/threading/ThreadPool.cpp'; TH = 'include/tulz/threading/Thread.h'; THC = 'src/threading/Thread.cpp'
SUB = 'include/tulz/observer/Subject.h'; OBS = 'include/tulz/observer/Observer.h'; OBV = 'include/tulz/observer/Observable.h'
SR = 'include/tulz/observer/routing/SubjectRouter.h'; SRC = 'src/observer/routing/SubjectRouter.cpp'; RLV = 'src/observer/routing/RoutingLevelView.cpp'
RKB = 'src/observer/routing/RoutingKeyBuilder.cpp'; RKBH = 'include/tulz/observer/routing/RoutingKeyBuilder.h'
CSR = 'include/tulz/observer/routing/ConcurrentSubjectRouter.h'
RB = 'include/tulz/container/RingBuffer.h'; AR = 'include/tulz/container/Array.h'; IT = 'include/tulz/container/RandomAccessIndexIterator.h'
FI = 'src/File.cpp'; PA = 'src/Path.cpp'; DV = 'src/DirectoryVisitor.cpp'; LO = 'src/LocaleInfo.cpp'

M = {}   # name -> (expect, [(file, old, new)])
B = {}   # name -> [(file, old, new)]

# ---------------------------------------------------------------- Resource (more in the hand-made benign set) ----------
M['res_drop_queue_empty'] = (['C03'], [(RES, "if (m_queue.empty() && (m_activeOp == OpType::None", "if ((m_activeOp == OpType::None")])
M['res_writer_next_to_reader'] = (['C01'], [(RES, "(m_activeOp == opType && opType == OpType::Read)", "(m_activeOp == OpType::Read)")])
M['res_pred_le'] = (['C01', 'C02'], [(RES, "return id < m_upperUnlockBound;", "return id <= m_upperUnlockBound;")])
M['res_pop_back'] = (['C03'], [(RES, "auto op = m_queue.front();\n    m_queue.pop_front();", "auto op = m_queue.back();\n    m_queue.pop_back();")])
M['res_push_front'] = (['C03'], [(RES, "m_queue.push_back({.type = opType, .upperBound = m_idCounter});\n    } else {", "m_queue.push_front({.type = opType, .upperBound = m_idCounter});\n    } else {")])
M['res_always_new_entry'] = (['C12'], [(RES, "if (auto &op = m_queue.back(); op.type == OpType::Read) {\n            op.upperBound = m_idCounter;\n        } else {", "if (false) {\n        } else {")])
M['res_bound_plus_one'] = (['C01'], [(RES, "m_upperUnlockBound = op.upperBound;", "m_upperUnlockBound = op.upperBound + 1;")])
M['res_notify_removed'] = (['C02'], [(RES, "        m_mutex.unlock();\n        m_cv.notify_all();", "        m_mutex.unlock();")])
M['res_no_idle_op'] = (['C02'], [(RES, "        m_activeOp = OpType::None;\n", "")])
M['res_readlock_takes_write'] = (['C12'], [('include/tulz/threading/rwp/ReadLock.h', "m_resource.lockRead();", "m_resource.lockWrite();"), ('include/tulz/threading/rwp/ReadLock.h', "m_resource.unlockRead();", "m_resource.unlockWrite();")])
M['res_unlock_without_mutex'] = (['C01', 'C15'], [(RES, "    m_mutex.lock();\n\n    assert(m_activeOp == opType);\n\n    if (--m_activeCount == 0) {\n        select();\n        m_mutex.unlock();\n        m_cv.notify_all();\n    } else {\n        m_mutex.unlock();\n    }",
                                        "    if (--m_activeCount == 0) {\n        m_mutex.lock();\n        select();\n        m_mutex.unlock();\n        m_cv.notify_all();\n    }")])
M['res_fast_requires_none'] = (['C12'], [(RES, "(m_activeOp == OpType::None || (m_activeOp == opType && opType == OpType::Read))", "(m_activeOp == OpType::None)")])
# ---------------------------------------------------------------- Subject ------------------------------------------------
M['sub_snapshot_back'] = (['C05'], [(SUB, "std::forward_list<CachedDetails> cachedDetails;\n\n        for (auto &details : m_observers)\n            cachedDetails.emplace_front(details.observer, details.subscriptionId);",
                                    "std::vector<CachedDetails> cachedDetails;\n\n        for (auto &details : m_observers)\n            cachedDetails.emplace_back(details.observer, details.subscriptionId);"), (SUB, "#include <set>", "#include <set>\n#include <vector>")])
M['sub_id_check_removed'] = (['C05', 'C10'], [(SUB, "            if (isSubscriptionIdValid(subscriptionId)) {\n                (*observer)(args...);\n\n                if (!observer->isValid()) {\n                    unsubscribeById(subscriptionId);\n                }\n            }",
                                              "            {\n                (*observer)(args...);\n\n                if (!observer->isValid()) {\n                    unsubscribeById(subscriptionId);\n                }\n            }")])
M['sub_mute_ignored'] = (['C05'], [(OBS, "if (!isMuted() && isValid()) {", "if (isValid()) {")])
M['sub_unsubscribe_unvalidated'] = (['C05'], [(SUB, "        if (!isSubscriptionValid(subscription))\n            throw std::invalid_argument(\"Invalid subscription\");\n\n", "")])
M['sub_foreign_handle_accepted'] = (['C05'], [(SUB, "return subscription.m_subject == this && isSubscriptionIdValid(subscription.getId());", "return isSubscriptionIdValid(subscription.getId());")])
M['sub_set_not_erased'] = (['C05'], [(SUB, "\n        m_activeSubscriptions.erase(subscriptionId);", "")])
M['sub_handle_not_cleared'] = (['C05'], [(SUB, "        subscription.m_subject = nullptr;\n", "")])
M['sub_iterate_members'] = (['C10'], [(SUB, "        for (auto [observer, subscriptionId] : cachedDetails) {", "        for (auto &[observer, subscriptionId] : m_observers) {")])
B['sub_auto_ref_snapshot'] = [(SUB, "for (auto [observer, subscriptionId] : cachedDetails) {", "for (auto &[observer, subscriptionId] : cachedDetails) {")]
B['sub_find_instead_of_contains'] = [(SUB, "return m_activeSubscriptions.contains(subscriptionId);", "return m_activeSubscriptions.count(subscriptionId) != 0;")]
# ---------------------------------------------------------------- Router ----------------------------------------------------
M['rt_regex_search'] = (['C06'], [(RLV, "return std::regex_match(levelName.begin(), levelName.end(), *regex);", "return std::regex_search(levelName.begin(), levelName.end(), *regex);")])
M['rt_count_outside_null_test'] = (['C06'], [(SR, "            subject.notify(args...); // may be one of several receivers: never consume\n            return 1;\n        }", "            subject.notify(args...); // may be one of several receivers: never consume\n        }\n        return 1;")])
M['rt_assign_instead_of_sum'] = (['C06'], [(SR, "notifyCount += node.template notify<Args...>", "notifyCount = node.template notify<Args...>")])
M['rt_string_level_visits_all'] = (['C06'], [(SR, "        if (nextLevel.isRegex()) {\n            size_t notifyCount = 0;", "        if (true) {\n            size_t notifyCount = 0;")])
M['rt_name_differs_from_key'] = (['C06'], [(SRC, "m_children.insert({nextLevelName, Node(nextLevelName)});", "m_children.insert({nextLevelName, Node(m_name)});")])
M['rt_builder_drops_root'] = (['C06'], [(RKB, "RoutingKeyBuilder::RoutingKeyBuilder() {\n    m_key.m_levels.emplace_back(\"\"); // root node\n}", "RoutingKeyBuilder::RoutingKeyBuilder() {\n}")])
M['rt_isleaf_off_by_one'] = (['C06'], [(RLV, "return getLevelIndex() == getLevelCount() - 1;", "return getLevelIndex() >= getLevelCount() - 2;")])
M['sh_isempty_or'] = (['C13'], [(SRC, "return (m_subject == nullptr || !m_subject->hasSubscriptions()) && m_children.empty();", "return (m_subject == nullptr || !m_subject->hasSubscriptions()) || m_children.empty();")])
M['sh_erase_before_recursion'] = (['C13'], [(SRC, "    // shrink the next level first\n    if (!levelView.isLeaf()) {", "    std::erase_if(m_children, [](auto &p) {\n        return p.second.isEmpty();\n    });\n\n    if (!levelView.isLeaf()) {"),
                                            (SRC, "    // erase empty children\n    std::erase_if(m_children, [](auto &p) {\n        return p.second.isEmpty();\n    });\n}", "}")])
M['sh_negated_predicate'] = (['C13'], [(SRC, "    std::erase_if(m_children, [](auto &p) {\n        return p.second.isEmpty();\n    });\n}", "    std::erase_if(m_children, [](auto &p) {\n        return !p.second.isEmpty();\n    });\n}")])
M['sh_depth_min'] = (['C13'], [(SRC, "maxDepth = std::max(maxDepth, node.depth());", "maxDepth = std::min(maxDepth, node.depth());")])
M['cr_readlock_in_subscribe'] = (['C11'], [(CSR, "        rwp::WriteLock lock {m_resource};\n        return Subscription(m_resource,", "        rwp::ReadLock lock {m_resource};\n        return Subscription(m_resource,")])
M['cr_readlock_in_shrink'] = (['C11'], [(CSR, "        rwp::WriteLock lock {m_resource};\n        m_router.shrink(key);", "        rwp::ReadLock lock {m_resource};\n        m_router.shrink(key);")])
M['cr_no_guard_in_exists'] = (['C11', 'C15'], [(CSR, "        rwp::ReadLock lock {m_resource};\n        return m_router.exists(key);", "        return m_router.exists(key);")])
M['cr_guard_in_inner_block'] = (['C11'], [(CSR, "        rwp::ReadLock lock {m_resource};\n        return m_router.depth();", "        { rwp::ReadLock lock {m_resource}; }\n        return m_router.depth();")])
M['cr_invoker_no_lock'] = (['C11'], [(CSR, "        rwp::WriteLock lock {m_resource};\n        DefaultInvoker<Args...>::unsubscribe();", "        DefaultInvoker<Args...>::unsubscribe();")])
B['rt_contains_at'] = [(SR, "            if (auto it = m_children.find(nextLevel.asString()); it != m_children.end()) {\n                return it->second.template notify<Args...>(nextLevel, std::forward<Args>(args)...);\n            }",
                        "            auto it = m_children.find(nextLevel.asString());\n            if (it == m_children.end())\n                return 0;\n            return it->second.template notify<Args...>(nextLevel, std::forward<Args>(args)...);")]
# ---------------------------------------------------------------- Observable -------------------------------------------------
M['ob_notify_dropped_from_decrement'] = (['C16'], [(OBV, "    T& operator--() {\n        --m_val;\n        m_subject.notify(m_val);\n        return m_val;", "    T& operator--() {\n        --m_val;\n        return m_val;")])
M['ob_notify_prev'] = (['C16'], [(OBV, "        auto prev = m_val;\n        ++m_val;\n        m_subject.notify(m_val);", "        auto prev = m_val;\n        ++m_val;\n        m_subject.notify(prev);")])
M['ob_notify_before_store'] = (['C16'], [(OBV, "            m_val = std::forward<V>(val);\n            m_subject.notify(m_val);", "            m_subject.notify(m_val);\n            m_val = std::forward<V>(val);")])
M['ob_guard_flipped'] = (['C16'], [(OBV, "        if (!m_eq(old, m_val)) {\n            m_subject.notify(m_val);", "        if (m_eq(old, m_val)) {\n            m_subject.notify(m_val);")])
M['ob_minus_applies_plus'] = (['C16'], [(OBV, "            val -= std::forward<V>(other);", "            val += std::forward<V>(other);")])
B['ob_early_return'] = [(OBV, "        if (!m_eq(old, m_val)) {\n            m_subject.notify(m_val);\n        }", "        if (m_eq(old, m_val))\n            return;\n\n        m_subject.notify(m_val);")]
B['ob_renamed_old'] = [(OBV, "        auto old = m_val;\n\n        callable(m_val);\n\n        if (!m_eq(old, m_val)) {", "        const T before = m_val;\n\n        callable(m_val);\n\n        if (!m_eq(before, m_val)) {")]
# ---------------------------------------------------------------- Thread -----------------------------------------------------------
M['th_flag_before_call'] = (['C20'], [(TH, "            ptr(std::forward<Args>(args)...);\n            m_isFinished = true;", "            m_isFinished = true;\n            ptr(std::forward<Args>(args)...);")])
M['th_called_twice'] = (['C20'], [(TH, "            ptr(std::forward<Args>(args)...);\n            m_isFinished = true;", "            ptr(std::forward<Args>(args)...);\n            ptr(std::forward<Args>(args)...);\n            m_isFinished = true;")])
M['th_runnable_not_deleted'] = (['C20', 'C07'], [(THC, "        runnable->run();\n        delete runnable;\n", "        runnable->run();\n")])
B['th_init_capture'] = [(TH, "m_thread = std::thread([this, ptr, &args...]() mutable {", "m_thread = std::thread([this, ptr = std::move(ptr), &args...]() mutable {")]
# ---------------------------------------------------------------- RingBuffer / Array ------------------------------------------------------
M['rb_no_pos_advance_on_overwrite'] = (['C04'], [(RB, "            m_data[m_pos] = T(std::forward<Args>(args)...);\n            m_pos = modCap(m_pos + 1);", "            m_data[m_pos] = T(std::forward<Args>(args)...);")])
M['rb_emplace_back_returns_front'] = (['C04'], [(RB, "            ++m_size;\n        }\n\n        return back();", "            ++m_size;\n        }\n\n        return front();")])
M['rb_min_becomes_max'] = (['C04'], [(RB, "auto copyCount = std::min(m_size, newCapacity);", "auto copyCount = std::max(m_size, newCapacity);")])
M['rb_end_at_capacity'] = (['C04'], [(RB, "    iterator end() {\n        return iterator(*this, size());", "    iterator end() {\n        return iterator(*this, capacity());")])
M['rb_iterator_decrement_increments'] = (['C04'], [(IT, "    RandomAccessIndexIterator& operator--() {\n        --m_index;", "    RandomAccessIndexIterator& operator--() {\n        ++m_index;")])
M['rb_pop_back_off_by_one'] = (['C04'], [(RB, "        --m_size;\n        return std::move(m_data[dataIndex(m_size)]);", "        --m_size;\n        return std::move(m_data[dataIndex(m_size - 1)]);")])
M['rb_bare_mod'] = (['C04', 'C09'], [(RB, "        return ((a % b) + b) % b;", "        return a % b;")])
M['rb_dtor_to_capacity'] = (['C09'], [(RB, "        for (T &element : *this)\n            element.~T();\n        free(m_data);\n    }\n\n    T& push_back", "        for (size_t i = 0; i < m_capacity; ++i)\n            m_data[i].~T();\n        free(m_data);\n    }\n\n    T& push_back")])
M['rb_placement_new_when_full'] = (['C09'], [(RB, "            m_data[m_pos] = T(std::forward<Args>(args)...);\n            m_pos = modCap(m_pos + 1);", "            new (&m_data[m_pos]) T(std::forward<Args>(args)...);\n            m_pos = modCap(m_pos + 1);")])
M['rb_free_before_tail_destroy'] = (['C09'], [(RB, "            for (size_t i = 0; i < deleteCount; ++i)\n                m_data[dataIndex(copyCount + i)].~T();\n            free(m_data);", "            free(m_data);\n            for (size_t i = 0; i < deleteCount; ++i)\n                m_data[dataIndex(copyCount + i)].~T();")])
M['rb_memcpy_without_sizeof'] = (['C09'], [(RB, "std::memcpy(dst, m_data + m_pos, n1 * sizeof(T));", "std::memcpy(dst, m_data + m_pos, n1);")])
M['rb_move_forgets_capacity'] = (['C04'], [(RB, "        std::swap(m_capacity, other.m_capacity);\n", "")])
B['rb_dataindex_respelled'] = [(RB, "new (&m_data[modCap(m_pos + m_size)]) T(std::forward<Args>(args)...);", "new (&m_data[dataIndex(m_size)]) T(std::forward<Args>(args)...);")]
B['rb_dtor_index_loop'] = [(RB, "        for (T &element : *this)\n            element.~T();\n        free(m_data);\n    }\n\n    T& push_back", "        for (size_t i = 0; i < m_size; ++i)\n            m_data[dataIndex(i)].~T();\n        free(m_data);\n    }\n\n    T& push_back")]
B['rb_pop_front_via_index'] = [(RB, "        auto element = std::move(m_data[m_pos]);", "        auto element = std::move((*this)[0]);")]
M['ar_loop_le'] = (['C14'], [(AR, "        for (size_t i = 0; i < size; ++i) {\n            new (&m_array[i]) T(value);\n        }\n    }\n\n    Array() = default;", "        for (size_t i = 0; i <= size; ++i) {\n            new (&m_array[i]) T(value);\n        }\n    }\n\n    Array() = default;")])
M['ar_shallow_copy'] = (['C14'], [(AR, "        m_size = src.m_size;\n        m_array = static_cast<T*>(malloc(m_size * sizeof(T)));\n\n        if constexpr (!std::is_class_v<T>) {\n            memcpy(m_array, src.m_array, m_size * sizeof(T));\n        } else {\n            for (size_t i = 0; i < m_size; i++) {\n                new (&m_array[i]) T(src.m_array[i]);\n            }\n        }",
                                  "        m_size = src.m_size;\n        m_array = src.m_array;")])
M['ar_resize_keeps_tail'] = (['C14'], [(AR, "    void resize(size_t size) {\n        destroy(size, m_size);\n", "    void resize(size_t size) {\n")])
M['ar_size_before_initialize'] = (['C14'], [(AR, "        if (size > m_size)\n            initialize(m_size, size);\n\n        m_size = size;", "        const bool grow = size > m_size;\n        m_size = size;\n\n        if (grow)\n            initialize(m_size, size);")])
M['ar_memcpy_class'] = (['C14'], [(AR, "        if constexpr (!std::is_class_v<T>) {\n            memcpy(m_array, src.m_array, m_size * sizeof(T));\n        } else {\n            for (size_t i = 0; i < m_size; i++) {\n                new (&m_array[i]) T(src.m_array[i]);\n            }\n        }", "        memcpy(m_array, src.m_array, m_size * sizeof(T));")])
B['ar_copy_counts_via_src'] = [(AR, "            for (size_t i = 0; i < m_size; i++) {\n                new (&m_array[i]) T(src.m_array[i]);\n            }\n        }\n    }\n\n    // move constructor", "            for (size_t i = 0; i < src.m_size; ++i) {\n                new (&m_array[i]) T(src.m_array[i]);\n            }\n        }\n    }\n\n    // move constructor")]
# ---------------------------------------------------------------- File / Path / LocaleInfo ------------------------------------------------------
M['fi_seek_back_dropped'] = (['C17'], [(FI, "    size_t fileSize = tell();\n    fseek(m_file, prevPos, SEEK_SET);\n", "    size_t fileSize = tell();\n")])
M['fi_append_truncates'] = (['C17'], [(FI, 'case Mode::Append: return "ab";', 'case Mode::Append: return "wb";')])
M['fi_notfound_loses_writemode'] = (['C17'], [(FI, "if (!path.exists() && !isWriteMode())", "if (!path.exists())")])
M['fi_write_string_strlen'] = (['C17'], [(FI, "return write(str.c_str(), str.length());", "return write(str.c_str(), strlen(str.c_str()));"), (FI, "#include <iostream>", "#include <iostream>\n#include <cstring>")])
M['fi_readstr_cstring'] = (['C17'], [(FI, "return {reinterpret_cast<char const *>(data.array()), data.size()};", "return std::string(reinterpret_cast<char const *>(data.array()));")])
M['fi_fwrite_swapped'] = (['C17'], [(FI, "return fwrite(data, elementSize, size, m_file);", "return fwrite(data, size, size, m_file);")])
B['fi_size_via_wrappers'] = [(FI, "    fseek(m_file, 0, SEEK_END);\n    size_t fileSize = tell();\n    fseek(m_file, prevPos, SEEK_SET);", "    fseek(m_file, 0L, SEEK_END);\n    const size_t fileSize = static_cast<size_t>(ftell(m_file));\n    fseek(m_file, prevPos, SEEK_SET);")]
M['pa_closedir_dropped'] = (['C18'], [(PA, "    closedir(dir);\n#elif", "#elif")])
M['pa_filter_and'] = (['C18'], [(PA, 'if (strcmp(name, ".") == 0 || strcmp(name, "..") == 0) {\n            continue;\n        }\n\n        result.emplace_front(name);\n    }\n\n    closedir', 'if (strcmp(name, ".") == 0 && strcmp(name, "..") == 0) {\n            continue;\n        }\n\n        result.emplace_front(name);\n    }\n\n    closedir')])
M['pa_dir_size_no_recursion'] = (['C18'], [(PA, "            size += Path::join(*this, child).size();", "            size += child.toString().size();")])
M['pa_join_absolute_removed'] = (['C18'], [(PA, "    // if p2 is absolute just return it\n    if (isAbsolutePath(p2))\n        return p2;\n\n", "")])
M['pa_visitor_saves_after_chdir'] = (['C18'], [(DV, "        m_oldDir = Path::getWorkingDirectory();\n        Path::setWorkingDirectory(m_dir);", "        Path::setWorkingDirectory(m_dir);\n        m_oldDir = Path::getWorkingDirectory();")])
M['pa_dtor_no_restore'] = (['C18'], [(DV, "DirectoryVisitor::~DirectoryVisitor() {\n    restore();\n}", "DirectoryVisitor::~DirectoryVisitor() {\n}")])
M['pa_exists_leaks'] = (['C18'], [(PA, "    if (file) {\n        fclose(file);\n    }\n\n    return file;", "    return file;")])
B['pa_filter_std_string'] = [(PA, '        if (strcmp(name, ".") == 0 || strcmp(name, "..") == 0) {\n            continue;\n        }\n\n        result.emplace_front(name);\n    }\n\n    closedir', '        if (std::string(name) == "." || std::string(name) == "..") {\n            continue;\n        }\n\n        result.emplace_front(name);\n    }\n\n    closedir')]
M['lo_le_sizeof'] = (['C19'], [(LO, "static_cast<size_t>(delim - locale) < sizeof(buffer) &&", "static_cast<size_t>(delim - locale) <= sizeof(buffer) &&")])
M['lo_guard_wrong_length'] = (['C19'], [(LO, "static_cast<size_t>(dotDelim - delim - 1) < sizeof(buffer);", "static_cast<size_t>(dotDelim - locale) < 2 * sizeof(buffer);")])
M['lo_language_check_removed'] = (['C19'], [(LO, "if (languageFound && (strcmp(inf.code, buffer) == 0 || strcmp(inf.value, buffer) == 0)) {", "if ((strcmp(inf.code, buffer) == 0 || strcmp(inf.value, buffer) == 0)) {")])
M['lo_buffer_size_128'] = (['C19'], [(LO, "static_cast<size_t>(delim - locale) < sizeof(buffer) &&", "static_cast<size_t>(delim - locale) < 128 &&")])
B['lo_hoisted_lengths'] = [(LO, "    const bool isWellFormed = delim && delim < dotDelim &&\n            static_cast<size_t>(delim - locale) < sizeof(buffer) &&\n            static_cast<size_t>(dotDelim - delim - 1) < sizeof(buffer);",
                            "    const bool ordered = delim && delim < dotDelim;\n    const bool languageFits = ordered && static_cast<size_t>(delim - locale) < sizeof(buffer);\n    const bool countryFits = ordered && static_cast<size_t>(dotDelim - delim - 1) <= sizeof(buffer) - 1;\n    const bool isWellFormed = languageFits && countryFits;")]

# ---------------------------------------------------------------- noise: unrelated additions must not disturb any check ------------------
B['noise_resource_logging'] = [(RES, "#include <cassert>", "#include <cassert>\n#include <cstdio>"),
                               (RES, "void Resource::lock(OpType opType) {\n    std::unique_lock lock {m_mutex};\n", "void Resource::lock(OpType opType) {\n    std::unique_lock lock {m_mutex};\n    std::fprintf(stderr, \"lock %d\\n\", static_cast<int>(opType));\n"),
                               (RES, "    auto op = m_queue.front();\n    m_queue.pop_front();", "    auto op = m_queue.front();\n    m_queue.pop_front();\n    std::fputs(\"select\\n\", stderr);")]
B['noise_threadpool_logging_and_method'] = [(TP, "#include <chrono>", "#include <chrono>\n#include <cstdio>"),
                               (TP, "void ThreadPool::stop() {\n", "void ThreadPool::stop() {\n    std::fputs(\"stopping pool\\n\", stderr);\n"),
                               (TP, "        runnable->run();\n\n        m_pooledThread->setLastActiveTime(time());", "        runnable->run();\n        std::fputs(\"task done\\n\", stderr);\n\n        m_pooledThread->setLastActiveTime(time());"),
                               (TP, "bool ThreadPool::isRunning() const {", "int ThreadPool::pendingTasks() {\n    std::scoped_lock locker(m_queueMutex);\n    return static_cast<int>(m_queue.size());\n}\n\nbool ThreadPool::isRunning() const {"),
                               ('include/tulz/threading/ThreadPool.h', "    bool isRunning() const;", "    bool isRunning() const;\n    int pendingTasks();")]
B['noise_ringbuffer_debug'] = [(RB, "#include <cstring>", "#include <cstring>\n#include <cstdio>"),
                               (RB, "    T& emplace_back(Args&&... args) {\n        overwriteCheck();\n", "    T& emplace_back(Args&&... args) {\n        overwriteCheck();\n        if (full()) std::fputs(\"overwriting\\n\", stderr);\n"),
                               (RB, "    bool empty() const {", "    size_t free_slots() const {\n        return m_capacity - m_size;\n    }\n\n    bool empty() const {")]
B['noise_router_logging'] = [(SRC, "#include <numeric>", "#include <numeric>\n#include <cstdio>"),
                             (SRC, "void SubjectRouter::Node::shrink(RoutingLevelView levelView) {\n", "void SubjectRouter::Node::shrink(RoutingLevelView levelView) {\n    std::fprintf(stderr, \"shrink %s\\n\", m_name.c_str());\n")]
B['noise_localeinfo_trace'] = [(LO, "    LocaleInfo::Info result;\n", "    LocaleInfo::Info result;\n    fprintf(stderr, \"LocaleInfo::get(%s)\\n\", locale);\n")]


def build(kind, name, edits, tmp):
    for sub in ('include', 'src'):
        shutil.rmtree(os.path.join(tmp, sub), ignore_errors=True)
        shutil.copytree(os.path.join('/repo', sub), os.path.join(tmp, sub))
    subprocess.run(['git', 'init', '-q'], cwd=tmp); subprocess.run(['git', 'add', '-A'], cwd=tmp)
    subprocess.run(['git', '-c', 'user.email=x', '-c', 'user.name=x', 'commit', '-qm', 'base'], cwd=tmp)
    for path, old, new in edits:
        p = os.path.join(tmp, path)
        s = open(p).read()
        if old not in s: return f'{name}: anchor text not found in {path}'
        open(p, 'w').write(s.replace(old, new, 1))
    files = sorted({e[0] for e in edits})
    tus = subprocess.run('find src -name "*.cpp"', shell=True, cwd=tmp, capture_output=True, text=True).stdout.split()
    cmd = ' && '.join(f'g++ -std=gnu++20 -fsyntax-only -Iinclude {t}' for t in tus) + ' && ' + ' && '.join(f'g++ -std=gnu++20 -fsyntax-only -Iinclude -I{V}/witness {w}' for w in sorted(__import__("glob").glob(V + "/witness/w_*.cpp")))
    r = subprocess.run(cmd, shell=True, cwd=tmp, capture_output=True, text=True)
    if r.returncode: return f'{name}: does not compile: {r.stderr[-300:]}'
    d = subprocess.run(['git', 'diff'], cwd=tmp, capture_output=True, text=True).stdout
    open(os.path.join(V, 'selftest', kind, name + '.diff'), 'w').write(d)
    subprocess.run(['git', 'checkout', '-q', '--', '.'], cwd=tmp)
    return None


def main():
    only = sys.argv[1] if len(sys.argv) > 1 else None
    tmp = tempfile.mkdtemp(prefix='tulzmk-')
    errs = []
    try:
        for name, (exp, edits) in M.items():
            if only and only not in name: continue
            e = build('mutants', name, edits, tmp)
            if e: errs.append(e)
            else: json.dump(dict(expect=exp), open(os.path.join(V, 'selftest', 'mutants', name + '.json'), 'w'))
        for name, edits in B.items():
            if only and only not in name: continue
            e = build('benign', name, edits, tmp)
            if e: errs.append(e)
    finally:
        shutil.rmtree(tmp, ignore_errors=True)
    for e in errs: print('ERROR', e)
    print(f'{len(M)} mutants, {len(B)} benign, {len(errs)} errors')


if __name__ == '__main__':
    main()
