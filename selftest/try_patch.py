#!/usr/bin/env python3
"""try_patch.py [-R] <patch> <Cxx> [<Cxx>...]   apply a patch to /repo, run the named checks, undo the patch.
Prints one line per check: property, exit code, first VIOLATION/other verdict line."""
import subprocess, sys, os
VERIF = os.path.dirname(os.path.dirname(os.path.abspath(__file__)))
def sh(*a, **k): return subprocess.run(a, stdout=subprocess.PIPE, stderr=subprocess.STDOUT, text=True, **k)
args = sys.argv[1:]
rev = []
if args[0] == '-R': rev = ['-R']; args = args[1:]
patch, props = args[0], args[1:]
st = sh('git', '-C', '/repo', 'status', '--porcelain', '--untracked-files=no').stdout.strip()
if st: sys.exit('refusing: /repo has local modifications:\n' + st)
r = sh('git', '-C', '/repo', 'apply', *rev, patch)
if r.returncode: sys.exit('patch does not apply: ' + r.stdout)
try:
    for p in props:
        r = sh(os.path.join(VERIF, 'check'), p, cwd=VERIF)
        lines = r.stdout.strip().split('\n')
        interesting = [l for l in lines if l.startswith(('VIOLATION', 'ANALYSIS-BROKEN', 'INCONCLUSIVE'))]
        detail = [l for l in lines if l.startswith('  ')]
        print(f'{p} exit={r.returncode} ' + (interesting[0][:120] if interesting else 'silent'))
        for l in detail[:3]: print('     ' + l.strip()[:260])
finally:
    sh('git', '-C', '/repo', 'checkout', '--', '.')
