#!/usr/bin/env python3
"""one-off: import the confirmed round-9 material from /tmp/seed9 (b1/b2 -> seeded/Cxxq, Cxxs; r1/r2 -> selftest/refactor/Cxxr16, Cxxr17)"""
import json, os, shutil, sys
ROOT = '/tmp/seed9'; V = '/verif'
titles = {}
for l in open(f'{V}/properties.jsonl'):
    o = json.loads(l); titles[o['id']] = o['title']
rep = []
# confirmed mechanically (the agent's demonstration fails with the patch) but not a violation of the property as stated: see DESIGN §20
REJECT = {}
REJECT_R = {('C05', 'r2'): 'not behaviour preserving: the statistics counters written inside Subject::notify race between two ConcurrentSubjectRouter::notify calls on the same key (read lock only) — C11 and C15 report it, correctly', ('C10', 'r2'): 'not behaviour preserving: the nesting-depth guard written inside Subject::notify races between two ConcurrentSubjectRouter::notify calls on the same key (read lock only) — C11 and C15 report it, correctly'}
for i in range(1, 21):
    cid = f'C{i:02d}'
    for x, suf in (('b1', 'q'), ('b2', 's')):
        o = f'{ROOT}/{cid}/out/{x}'
        cj = f'{o}/confirm.json'
        if (cid, x) in REJECT: rep.append((cid, x, 'REJECTED: ' + REJECT[(cid, x)])); continue
        if not os.path.exists(cj): rep.append((cid, x, 'no confirm.json')); continue
        c = json.load(open(cj))
        if not c.get('ok'): rep.append((cid, x, f'NOT CONFIRMED {c}')); continue
        d = f'{V}/seeded/{cid}{suf}'; os.makedirs(d, exist_ok=True)
        for fn in ('patch.diff', 'demo.cpp', 'NOTES.md'):
            if os.path.exists(f'{o}/{fn}'): shutil.copy(f'{o}/{fn}', f'{d}/{fn}')
        notes = open(f'{o}/NOTES.md').read() if os.path.exists(f'{o}/NOTES.md') else ''
        meta = dict(id=f'{cid}{suf}', property=cid, property_title=titles[cid], round=9,
                    origin='independent sub-agent (ninth round) given only the property text and a scratch worktree of /repo (HEAD 382fd35); nothing from /verif; b1 = a new public member whose interplay with the existing ones breaks the property, b2 = a new option that is subtly wrong',
                    needs_to_manifest=' '.join(notes.split())[:900],
                    confirmed_by_me=dict(how='selftest/confirm_seed.sh (SEEDROOT=/tmp/seed9) in the scratch worktree: apply patch, cmake+ninja build, ctest (11 executables), demo built against the patched tree fails, demo built against an unpatched baseline passes twice',
                                         patched_build_rc=c['build_rc'], patched_ctest_rc=c['ctest_rc'], demo_exit_codes_with_patch=c['demo_with_patch_rcs'].split(), demo_exit_codes_without_patch=c['demo_without_patch_rcs'].split()),
                    detected_by='see selftest/RESULTS.json (written by selftest/run_corpus.py)')
        json.dump(meta, open(f'{d}/meta.json', 'w'), indent=1)
        rep.append((cid, x, 'imported as ' + meta['id']))
    for x, suf in (('r1', 'r16'), ('r2', 'r17')):
        o = f'{ROOT}/{cid}/out/{x}'
        cj = f'{o}/confirm.json'
        if (cid, x) in REJECT_R: rep.append((cid, x, 'REJECTED: ' + REJECT_R[(cid, x)])); continue
        if not os.path.exists(cj): rep.append((cid, x, 'no confirm.json')); continue
        c = json.load(open(cj))
        if not c.get('ok'): rep.append((cid, x, f'NOT CONFIRMED {c}')); continue
        shutil.copy(f'{o}/patch.diff', f'{V}/selftest/refactor/{cid}{suf}.diff')
        notes = open(f'{o}/NOTES.md').read() if os.path.exists(f'{o}/NOTES.md') else ''
        json.dump(dict(id=f'{cid}{suf}', written_for=cid, kind='behaviour-preserving refactoring (sub-agent, ninth round: feature work (a new public member, a new option with a default))', summary=' '.join(notes.split())[:700],
                       confirmed=dict(build_rc=c['build_rc'], ctest_rc=c['ctest_rc'])), open(f'{V}/selftest/refactor/{cid}{suf}.json', 'w'), indent=1)
        rep.append((cid, x, f'imported as refactor:{cid}{suf}'))
for r in rep: print(*r)
