#!/bin/bash
/verif/selftest/confirm_seed.sh $1 a; /verif/selftest/confirm_seed.sh $1 b
