#!/bin/bash
# confirm_refactor.sh <Cxx> <r1|r2>: a behaviour-preserving refactoring must build and pass the whole suite
ROOT=${SEEDROOT:-/tmp/seed2}; ID=$1; X=$2; S=$ROOT/$ID; WT=$S/wt; O=$S/out/$X
CM="-G Ninja -DCMAKE_BUILD_TYPE=RelWithDebInfo -DCMAKE_CXX_FLAGS=-Wno-error -DFETCHCONTENT_SOURCE_DIR_GOOGLETEST=/usr/src/googletest -DFETCHCONTENT_FULLY_DISCONNECTED=ON"
cd $WT || exit 2
git checkout -q -- . ; git clean -fdq -e _b
git apply $O/patch.diff || { echo "{\"id\":\"$ID/$X\",\"ok\":false,\"why\":\"patch does not apply\"}" > $O/confirm.json; cat $O/confirm.json; exit 1; }
cmake -S . -B _b $CM > $O/build.log 2>&1 && cmake --build _b -j6 >> $O/build.log 2>&1
BUILD=$?
CT=1; if [ $BUILD = 0 ]; then ctest --test-dir _b -j4 --timeout 300 > $O/ctest.log 2>&1; CT=$?; if [ $CT != 0 ]; then ctest --test-dir _b --timeout 300 > $O/ctest.log 2>&1; CT=$?; fi; fi
git checkout -q -- . ; git clean -fdq -e _b; rm -rf $WT/_b
OK=false; if [ $BUILD = 0 ] && [ $CT = 0 ]; then OK=true; fi
echo "{\"id\":\"$ID/$X\",\"ok\":$OK,\"build_rc\":$BUILD,\"ctest_rc\":$CT}" > $O/confirm.json
cat $O/confirm.json
