#!/bin/bash
# mkrt.sh <root> <item e.g. C07> <which e.g. r1>: scratch tree /tmp/rt/<item><which> = /repo HEAD + <root>/<item>/out/<which>/patch.diff (development aid)
set -e
root=$1; it=$2; w=$3; t=/tmp/rt/$it$w
rm -rf $t; mkdir -p $t; git -C /repo archive HEAD | tar -x -C $t
(cd $t && git init -q . && git apply --whitespace=nowarn $root/$it/out/$w/patch.diff)
echo $t
