#!/bin/sh
# Build the only compiled component (the libTooling fact extractor) from files on disk; offline.
set -e
cd "$(dirname "$0")"
if [ ! -x tools/tulz-facts ] || [ tools/tulz_facts.cc -nt tools/tulz-facts ]; then
  clang++ $(llvm-config-14 --cxxflags) -fno-rtti -O1 tools/tulz_facts.cc -o tools/tulz-facts \
      /usr/lib/llvm-14/lib/libclang-cpp.so.14 /usr/lib/llvm-14/lib/libLLVM-14.so
fi
# every witness TU must be a use the library supports: it has to compile with the repository's own compiler
for f in witness/w_*.cpp; do
  g++ -std=gnu++20 -fsyntax-only -I/repo/include -Iwitness "$f"
done
mkdir -p evidence .cache
echo "setup ok"
